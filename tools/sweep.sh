#!/bin/bash
# usage: tools/sweep.sh "<seeds>" [tier]  – runs every registered check at the given seeds; prints one line per run
cd "$(dirname "$0")/.."
tier=${2:-quick}
for s in $1; do
  for p in C01 C02 C03 C04 C05 C06 C07 C08 C09 C10 C11 C12 C13 C14 C15 C16 C17; do
    out=$(./vf check $p --tier $tier --seed $s 2>&1); rc=$?
    echo "rc=$rc $(echo "$out" | tail -1)"
    if [ $rc -ne 0 ]; then echo "$out" | grep -v "^KNOWN" | cut -c1-600 | tail -5; fi
  done
done
