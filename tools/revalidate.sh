#!/bin/bash
# usage: tools/revalidate.sh [ids...]   – applies every archived seeded change to /repo in turn, runs the quick check of its own
# property (seeds 1, then 2 and 3 if it was not caught), restores /repo, and writes seeded/REVALIDATION.md.
set -u
cd "$(dirname "$0")/.."
if [ -n "$(git -C /repo status --porcelain --untracked-files=no)" ]; then echo "/repo is not clean"; exit 3; fi
trap 'git -C /repo checkout -q -- . ; echo "[/repo restored]"' EXIT
ids=${*:-$(ls seeded | grep -E '^C[0-9]{2}[a-z]$' | sort)}
out=seeded/REVALIDATION.md
{
  echo "# Seeded changes against the current tree"
  echo
  echo "/repo at $(git -C /repo rev-parse --short HEAD), /verif at $(git rev-parse --short HEAD); every archived patch applied in turn, the quick check of its own property run at seed 1 (then 2, 3 if it held)."
  echo
  echo "| id | property | applies | verdict | seed |"
  echo "|---|---|---|---|---|"
} > $out
for id in $ids; do
  p=${id:0:3}
  patch=/verif/seeded/$id/patch.diff
  if ! git -C /repo apply --check "$patch" 2>/dev/null; then
    echo "| $id | $p | no (the lines it changes were repaired or rewritten since) | - | - |" >> $out
    echo "$id does-not-apply"; continue
  fi
  git -C /repo apply "$patch"
  verdict="HELD (not caught)"; seed="1,2,3"
  for s in 1 2 3; do
    ./vf check $p --seed $s > /tmp/reval.out 2>&1; rc=$?
    if [ $rc -eq 1 ]; then verdict="caught"; seed=$s; break; fi
    if [ $rc -eq 2 ]; then verdict="inconclusive"; seed=$s; break; fi
  done
  git -C /repo checkout -q -- .
  echo "| $id | $p | yes | $verdict | $seed |" >> $out
  echo "$id $verdict seed=$seed"
done
python3 - <<'PYEOF' >> $out
import json, os, re
print()
print("Notes on the rows that are not `caught` (from the meta.json of the change):")
print()
for d in sorted(os.listdir("seeded")):
    if not re.fullmatch(r"C\d\d[a-z]", d):
        continue
    try:
        r = json.load(open(f"seeded/{d}/meta.json")).get("result", {})
    except Exception:
        continue
    if isinstance(r, dict):
        for k in ("now", "note"):
            if r.get(k):
                print(f"* {d}: {r[k]}")
PYEOF
