#!/bin/bash
# usage: tools/confirm_mutant.sh <worktree> <test-filter>
# Confirms in the scratch worktree that (1) the demonstration fails with the change, (2) passes without it,
# (3) the pinned suite (465 tests) passes with the change.
set -u
w="$1"; filt="$2"
cd "$w" || exit 3
export CARGO_TARGET_DIR="$w/target" CARGO_NET_OFFLINE=true
git checkout -q -- . 2>/dev/null; git clean -fdq ts-rs/tests 2>/dev/null
git apply out/patch.diff || { echo "patch does not apply"; exit 3; }
git apply out/demo.diff || { echo "demo does not apply"; exit 3; }
with=$(cargo nextest run -p ts-rs --test integration --offline "$filt" 2>&1 | grep -E "Summary|error" | tail -2)
git apply -R out/patch.diff
without=$(cargo nextest run -p ts-rs --test integration --offline "$filt" 2>&1 | grep -E "Summary|error" | tail -2)
git apply out/patch.diff
git apply -R out/demo.diff
suite=$(cargo nextest run --workspace --no-fail-fast --test-threads 8 --offline 2>&1 | grep -E "Summary" | tail -1)
echo "WITH    : $with"
echo "WITHOUT : $without"
echo "SUITE   : $suite"
