#!/bin/bash
# usage: tools/try_mutant.sh <patch.diff> <check> [<check> ...]   (env SEEDS="1 2" optional)
# Applies a seeded change to /repo, runs the given quick checks, and always restores /repo.
set -u
patch="$1"; shift
cd /verif
if [ -n "$(git -C /repo status --porcelain --untracked-files=no)" ]; then echo "/repo is not clean"; exit 3; fi
git -C /repo apply "$patch" || { echo "patch does not apply"; exit 3; }
trap 'git -C /repo checkout -- . ; echo "[/repo restored]"' EXIT
for c in "$@"; do
  for s in ${SEEDS:-1}; do
    out=$(./vf check "$c" --seed "$s" 2>&1)
    rc=$?
    echo "== $c seed $s rc=$rc"
    echo "$out" | grep -v "^KNOWN-FINDING" | cut -c1-400 | tail -${TAILN:-6}
  done
done
