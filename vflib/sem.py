"""C01 / C02: value-level monitors over the generated semantic corpus."""
import re

import tsgen

from . import common as C
from .corpus import Corpus, check_runs


def prefix(i):
    return "Q" + chr(ord("a") + i)


def sem_corpus(seed, tier, family="sem", profile=None, ncrates=None, per_crate=None, fixed=True):
    ncrates = ncrates or 16
    per_crate = per_crate or (36 if tier == "quick" else 260)
    gens = []
    for i in range(ncrates):
        p = profile or tsgen.Profile(max_depth=3 if tier == "quick" else 4)
        g = tsgen.Gen(seed * 1000 + i, prefix(i), p)
        for _ in range(per_crate):
            g.item()
        g.make_entries(per_generic=3)
        gens.append(g)
    if fixed:
        import fixed_cases
        gens.append(fixed_cases.sem_fixed())
        return Corpus(family, gens, extra_src=CONST_GENERIC_SRC, extra_serde_entries=CONST_GENERIC_ENTRIES, extra_last_only=True)
    return Corpus(family, gens)


# a type whose only parameter is a const parameter, inlined twice with different values (hand-written: serde has no impl for
# `[T; N]` with a generic N, so the array is written as a fixed-size sequence by a `with` module)
CONST_GENERIC_SRC = """
pub mod fx_fixed_len {
    use serde::{de::Error, ser::SerializeTuple, Deserialize, Deserializer, Serializer};
    pub fn serialize<S: Serializer, const N: usize>(v: &[u8; N], s: S) -> Result<S::Ok, S::Error> {
        let mut t = s.serialize_tuple(N)?;
        for x in v { t.serialize_element(x)?; }
        t.end()
    }
    pub fn deserialize<'de, D: Deserializer<'de>, const N: usize>(d: D) -> Result<[u8; N], D::Error> {
        let v = Vec::<u8>::deserialize(d)?;
        let n = v.len();
        v.try_into().map_err(|_| D::Error::invalid_length(n, &"an array of exactly N elements"))
    }
}
#[derive(Clone, Debug, Serialize, Deserialize, TS)]
pub struct FxRowN<const N: usize> { #[serde(with = "fx_fixed_len")] #[ts(as = "[u8; N]")] pub fx_cells: [u8; N] }
#[derive(Clone, Debug, Serialize, Deserialize, TS)]
pub struct FxBoard { #[ts(inline)] pub fx_small: FxRowN<2>, #[ts(inline)] pub fx_large: FxRowN<3>, pub fx_tail: Option<Box<FxBoard>> }
impl vsupport::Samples for FxBoard {
    fn samples(depth: u32) -> Vec<Self> {
        let b = FxBoard { fx_small: FxRowN { fx_cells: [1, 2] }, fx_large: FxRowN { fx_cells: [3, 4, 5] }, fx_tail: None };
        if depth == 0 { return vec![b]; }
        vec![b.clone(), FxBoard { fx_small: FxRowN { fx_cells: [0, 255] }, fx_large: FxRowN { fx_cells: [9, 9, 9] }, fx_tail: Some(Box::new(b)) }]
    }
}
"""
CONST_GENERIC_ENTRIES = [("FxBoard", "FxBoard")]


def reason_class(reason):
    r = re.sub(r'"[^"]*"', '"_"', reason)
    r = re.sub(r"\d+", "N", r)
    r = re.sub(r"\(e\.g\. .*\)$", "", r).strip()
    return r[:80]


RISKY = ("f:flatten", "f:inline", "f:skip", "f:optional", "v:skip", "v:untagged", "c:tag", "c:content", "f:type", "f:as",
         "c:optional_fields", "k:", "struct-", "enum-")


def text_closure_tags(meta, item_id):
    """Tags of an item plus those of the items whose text is spliced into its declaration."""
    seen, tags = set(), set()

    def go(i):
        if i in seen or i not in meta["items"]:
            return
        seen.add(i)
        tags.update(meta["items"][i]["tags"])
        for c in meta["items"][i]["text_children"]:
            go(c)
    go(item_id)
    return tags


def owner_item(meta, root_item, in_decl):
    if in_decl:
        for iid, it in meta["items"].items():
            if it["ts_name"] == in_decl:
                return iid
    return root_item


def dep_closure(meta, item_id):
    seen = set()

    def go(i):
        if i in seen or i not in meta["items"]:
            return
        seen.add(i)
        for c in meta["items"][i]["deps"]:
            go(c)
    go(item_id)
    return seen


def key_tags(meta, item_id):
    """Risky tags of the item's textual closure, plus `dep:k:*` for named defect constructs anywhere below it
    (a defect in a dependency surfaces in every type that contains its values)."""
    tags = set(t for t in text_closure_tags(meta, item_id) if t.startswith(RISKY))
    for d in dep_closure(meta, item_id):
        for t in meta["items"][d]["tags"]:
            if t.startswith("k:"):
                tags.add("dep:" + t)
    return sorted(tags)


def run(pid, tier, seed):
    chk = C.Check(pid, tier, seed)
    chk.rule = ("random type definitions (tsgen.Gen: structs/enums x serde/ts attributes x generics x nesting; plus a corpus whose identifiers "
                "do not follow Rust naming conventions under rename_all rules) compiled against /repo; "
                "per type structural sample values (vderive::Samples); oracle = tsmodel membership of serde_json output in the "
                "swc-parsed declared type. distinct_nontrivial = distinct (feature-signature of the type) among types with at "
                "least one attribute, nesting or enum representation that had >=1 structured (object/array) value checked")
    chk.assumptions = ["serde 1.0.215 / serde_json 1.0.133 are the wire format", "swc_ecma_parser 0.144.1 is the TypeScript grammar",
                       "tsmodel semantics (DESIGN.md section 2): exact objects, bigint = JSON integer, lenient index-signature intersection"]
    if pid == "C02":
        # serde's buffered deserializers (untagged / internally / adjacently tagged, flatten) cannot parse
        # integer map keys or 128-bit integers: outside "types on which serde round-trips" (Appendix A.11)
        prof = tsgen.Profile(max_depth=3 if tier == "quick" else 4, string_keys_only=True, big_ints=False, no_char=True)
        corpus = sem_corpus(seed, tier, family="semd", profile=prof)
    else:
        corpus = sem_corpus(seed, tier)
    run_value_monitor(chk, pid, pid, corpus, seed, tier)
    if pid in ("C01", "C02"):
        # property names and tag literals of members with unconventional identifiers must be the ones serde emits / accepts
        gens = []
        for i in range(4 if tier == "quick" else 8):
            restrict = dict(string_keys_only=True, big_ints=False, no_char=True) if pid == "C02" else {}
            prof = tsgen.Profile(max_depth=2, weird_idents=True, p_rename_all=0.9, flatten=False, inline=False, generics=False,
                                 weird_renames=False, p_attr=0.15, **restrict)
            g = tsgen.Gen(seed * 1000 + (550 if pid == "C02" else 570) + i, ("V" if pid == "C02" else "Y") + chr(ord("a") + i), prof)
            for _ in range(30 if tier == "quick" else 150):
                g.item()
            g.make_entries()
            gens.append(g)
        run_value_monitor(chk, pid, pid, Corpus("semw" if pid == "C02" else "semy", gens), seed, tier)
    return chk.finish(min_evaluations=200, min_distinct=20)


def run_value_monitor(chk, pid, monitor, corpus, seed, tier):
    """Build `corpus`, run the C01/C02 value monitor on it and feed `chk`. Returns False when inconclusive."""
    try:
        derive_errors = corpus.build()
    except C.Inconclusive as e:
        chk.note_inconclusive(str(e)[:1500])
        return False
    meta = corpus.meta()
    for de in derive_errors:
        # a generated item the real derive expanded into code rustc rejects: C16's business; here only coverage loss
        chk.hist("dropped_items", (de["message"] or "")[:60])
    results = corpus.run(monitor, seed, tier)
    check_runs(chk, results, monitor)
    # C02 quantifies over the fragment on which serde round-trips its own output. A type one of whose sampled values serde
    # itself rejects is outside it - and so is every type that contains values of such a type, whether or not its own
    # samples happened to hit the combination
    outside = set()
    for r in results:
        for ev in r["events"]:
            if ev.get("ev") == "type" and str(ev.get("excluded") or "").startswith("serde does not round-trip"):
                it0 = meta["entries"].get(ev["id"], {}).get("item")
                if it0:
                    outside.add(it0)
    for r in results:
        for ev in r["events"]:
            if ev.get("ev") != "type":
                continue
            eid = ev["id"]
            ent = meta["entries"].get(eid, {})
            if outside and ev.get("fails"):
                below = dep_closure(meta, ent.get("item")) | {d for a in ent.get("arg_items", []) for d in dep_closure(meta, a)}
                if below & outside:
                    kept = [f for f in ev["fails"] if (f.get("against") or f.get("stage")) not in ("deserialize",)]
                    if len(kept) != len(ev["fails"]):
                        chk.hist("totals", "rejected_witnesses_of_types_outside_the_round_trip_fragment", len(ev["fails"]) - len(kept))
                    ev["fails"] = kept
            item = meta["items"].get(ent.get("item"), {})
            tags = item.get("tags", [])
            chk.add_eval(ev.get("checked", 0))
            if monitor == "C01":
                nontrivial = ev.get("nontrivial", 0) > 0
            else:
                nontrivial = ev.get("checked", 0) > 0
            if nontrivial and len(tags) > 1:
                chk.add_distinct("|".join(tags))
            for t in tags:
                if not t.startswith("t*:"):
                    chk.hist("feature_coverage", t.split("=")[0] if t.startswith("t:") else t)
            if ev.get("excluded"):
                chk.hist("excluded_types", reason_class(ev["excluded"]))
            if monitor == "C01":
                chk.hist("totals", "samples", ev.get("samples", 0))
                chk.hist("totals", "serde_rejected", ev.get("serde_rejected", 0))
            else:
                chk.hist("totals", "witnesses", ev.get("witnesses", 0))
                chk.hist("totals", "mutants", ev.get("mutants", 0))
            if ev.get("example") is not None and item:
                chk.sample({"type": item.get("source"), "rust": ev.get("rust"), "ts": ev.get("ts"),
                            "value": ev.get("example")})
            root = ent.get("item")
            for kind, detail in ev.get("problems", []):
                owner = root
                m = re.match(r"type (\w+)", detail) if kind.startswith("unparseable-decl") else None
                if m:
                    owner = owner_item(meta, root, m.group(1))
                m = re.match(r"(\w+): ", detail) if kind == "panic|decl" else None
                if m:
                    owner = owner_item(meta, root, m.group(1))
                kt = key_tags(meta, owner)
                key = f"{pid}|problem|{kind.split('|')[0]}|{owner}|{','.join(kt)}"
                chk.violation(key, f"{kind}: {detail[:300]} (seen from type {ev.get('rust')})",
                              {"entry": eid, "rust": ev.get("rust"), "source": closure_source(meta, owner),
                               "problem": [kind, detail], "ts": ev.get("ts")}, tags=kt)
            for f in ev.get("fails", []):
                stage = f.get("against") or f.get("stage")
                owner = owner_item(meta, root, f.get("in_decl"))
                kt = key_tags(meta, owner)
                # a value that matched no union arm failed in every arm: a named defect construct owning *any* of those
                # failures may be the cause
                for other in f.get("also") or []:
                    o2 = owner_item(meta, root, other)      # "" = the root type's own text
                    kt = sorted(set(kt) | {t for t in key_tags(meta, o2) if t.startswith("dep:k:")})
                # ... and one inside a type *argument* of the registered instantiation
                for a in ent.get("arg_items", []):
                    kt = sorted(set(kt) | {t for t in key_tags(meta, a) if t.startswith("dep:k:")})
                key = f"{pid}|fail|{reason_class(f.get('reason', ''))}|{owner}|{','.join(kt)}"
                what = (f"{stage}: {f.get('reason')} at /{'/'.join(f.get('path', []))} (node in declaration of {owner}) for value "
                        f"{str(f.get('value', f.get('witness')))[:200]} (type {ev.get('rust')}, ts {str(ev.get('ts'))[:300]})")
                chk.violation(key, what, {"entry": eid, "rust": ev.get("rust"), "source": closure_source(meta, root),
                                          "owner_source": meta["items"].get(owner, {}).get("source"),
                                          "fail": f, "ts": ev.get("ts"), "decls": ev.get("decls")}, tags=kt)
            for inc in ev.get("inconclusive", []):
                reason = str(inc.get("reason"))
                m = re.match(r"unresolved-name:(\w+)", reason)
                if m:
                    name = m.group(1)
                    broken = any(k.startswith("unparseable-decl") and re.match(r"type %s\b" % re.escape(name), d)
                                 for k, d in ev.get("problems", []))
                    if broken:
                        continue    # already reported as unparseable-decl
                    # a name used by the binding that is not among the declarations ts-rs says it depends on
                    kt = key_tags(meta, root)
                    chk.violation(f"{pid}|unresolved-name|{root}|{','.join(kt)}",
                                  f"type {ev.get('rust')} refers to {name}, which is not among its (transitive) dependencies: "
                                  f"{str(ev.get('ts'))[:300]}",
                                  {"entry": eid, "rust": ev.get("rust"), "source": closure_source(meta, root), "ts": ev.get("ts"),
                                   "decls": ev.get("decls")}, tags=kt)
                else:
                    chk.hist("inconclusive_types", reason_class(reason))
    chk.coverage_extra["dropped_by_rustc"] = {k: len(v) for k, v in corpus.dropped.items()}
    n_types = sum(1 for r in results for ev in r["events"] if ev.get("ev") == "type")
    chk.coverage_extra["types"] = chk.coverage_extra.get("types", 0) + n_types
    return True




def closure_source(meta, item_id, limit=12):
    """Source text of an item and of the items it depends on (for replays)."""
    if not item_id:
        return None
    seen, order = set(), []

    def go(i):
        if i in seen or i not in meta["items"] or len(order) >= limit:
            return
        seen.add(i)
        for d in meta["items"][i]["deps"]:
            go(d)
        order.append(meta["items"][i]["source"])
    go(item_id)
    return "\n\n".join(order)
