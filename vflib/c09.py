"""C09: rename_all yields serde's wire names for every identifier."""
import tsgen

from . import common as C
from . import inproc, sem
from .corpus import Corpus


def run(pid, tier, seed):
    chk = C.Check(pid, tier, seed)
    maxlen = 6 if tier == "quick" else 8
    chk.rule = (f"(a) exhaustive: every valid Rust identifier of length <= {maxlen} over {{a,b,A,B,1,_,e-acute,sharp-s,Sigma}} x 8 rules x "
                "{field, variant}: ts-rs's Inflection (called in-process inside the proc-macro crate) against serde_derive's own "
                "RenameRule::apply_to_field/apply_to_variant (its case.rs, included verbatim); identifiers on which serde itself panics are "
                "counted and skipped. (b) call sites: every ASCII identifier of length <= 3 (+ a list of named cases) pushed through the real "
                "expansion at the four places a rule can be written (struct rename_all, enum rename_all, variant rename_all, rename_all_fields), in the ts spelling and in serde lists behind other serde keys, "
                "and the serde name searched in the expansion. (c) end-to-end: generated crates whose members carry unconventional identifiers, "
                "checked by the C01 value monitor against real serde_json output. distinct_nontrivial = distinct (position, identifier class) "
                "seen in (a) that are not 'conventional' + distinct feature signatures of (c)")
    chk.assumptions = ["harness/third_party/serde_derive_case.rs is serde_derive 1.0.215's src/internals/case.rs (first two lines changed from //! to //)"]
    exe = inproc.build(("serde-compat",))
    evs, ok, outp = inproc.run_job(exe, "c09", {"mode": "c09", "maxlen": maxlen})
    if not ok:
        chk.note_inconclusive("in-process monitor did not finish: " + outp[-500:])
    for e in evs:
        if e.get("ev") == "summary":
            chk.add_eval(e["compared"])
            chk.coverage_extra["identifier_enumeration"] = {k: e[k] for k in ("maxlen", "compared", "agree", "serde_panics")}
            for c in e["classes"]:
                if not c.endswith(":conventional"):
                    chk.add_distinct(c)
        elif e.get("ev") == "diverge":
            key = f"C09|diverge|{e['rule']}|{e['position']}|{e['class']}"
            ex = e["examples"][0]
            chk.violation(key, f"{e['rule']} on {e['position']} `{ex['ident']}`: serde {ex['serde']!r}, ts-rs {ex['ts_rs']!r} "
                               f"({e['count']} identifiers of class {e['class']})", e, tags=[e["rule"], e["position"], e["class"]])
        elif e.get("ev") == "panic":
            key = f"C09|panic|{e['rule']}|{e['position']}|{e['class']}"
            chk.violation(key, f"{e['rule']} on {e['position']}: ts-rs panics where serde does not: {e['examples'][0]}", e,
                          tags=[e["rule"], e["position"], e["class"], "panic"])
    evs, ok, outp = inproc.run_job(exe, "c09sites", {"mode": "c09sites", "maxlen": 3 if tier == "quick" else 4})
    if not ok:
        chk.note_inconclusive("in-process call-site monitor did not finish: " + outp[-500:])
    for e in evs:
        if e.get("ev") == "sites-summary":
            chk.add_eval(e["checked"])
            chk.coverage_extra["call_sites"] = {k: e[k] for k in ("idents", "checked", "serde_panics")}
        elif e.get("ev") == "site-fail":
            key = f"C09|site|{e['site']}|{e['rule']}|{e['class']}"
            chk.violation(key, f"{e['site']} {e['rule']}: {e['examples'][0]} ({e['count']} cases)", e,
                          tags=[e["rule"], e["site"], e["class"]])
    chk.sample({"identifier": "fooBar", "position": "field", "rule": "snake_case", "serde": "fooBar"})
    # (c) end-to-end
    ncrates = 8 if tier == "quick" else 16
    per = 30 if tier == "quick" else 200
    gens = []
    for i in range(ncrates):
        prof = tsgen.Profile(max_depth=2, weird_idents=True, p_rename_all=0.9, flatten=False, inline=False, generics=False,
                             weird_renames=False, p_attr=0.15)
        g = tsgen.Gen(seed * 1000 + 500 + i, "W" + chr(ord("a") + i), prof)
        for _ in range(per):
            g.item()
        g.make_entries()
        gens.append(g)
    import fixed_cases
    gens.append(fixed_cases.rename_fixed())
    sem.run_value_monitor(chk, pid, "C01", Corpus("c09e", gens, extra_src=MACRO_CASED_SRC, extra_serde_entries=MACRO_CASED_ENTRIES, extra_last_only=True),
                          seed, tier)
    return chk.finish(min_evaluations=100000, min_distinct=20)


# the rule reaches the attribute through a `$case:literal` / `$case:expr` fragment of a macro_rules! macro (serde accepts that)
MACRO_CASED_SRC = """
macro_rules! fr_cased_struct {
    ($name:ident, $case:literal) => {
        #[derive(Clone, Debug, Serialize, Deserialize, TS)]
        #[serde(rename_all = $case)]
        pub struct $name { pub user_name: String, pub crc32c_hash: u32 }
        impl vsupport::Samples for $name {
            fn samples(_depth: u32) -> Vec<Self> { vec![$name { user_name: "a".into(), crc32c_hash: 1 }] }
        }
    };
}
macro_rules! fr_cased_enum {
    ($name:ident, $case:expr, $fcase:literal) => {
        #[derive(Clone, Debug, Serialize, Deserialize, TS)]
        #[serde(rename_all = $case, rename_all_fields = $fcase)]
        pub enum $name { FirstChoice, SecondChoice { retry_count: u8 } }
        impl vsupport::Samples for $name {
            fn samples(_depth: u32) -> Vec<Self> { vec![$name::FirstChoice, $name::SecondChoice { retry_count: 2 }] }
        }
    };
}
fr_cased_struct!(FrCasedCamel, "camelCase");
fr_cased_struct!(FrCasedScreamingKebab, "SCREAMING-KEBAB-CASE");
fr_cased_struct!(FrCasedPascal, "PascalCase");
fr_cased_enum!(FrCasedEnumA, "snake_case", "PascalCase");
fr_cased_enum!(FrCasedEnumB, "kebab-case", "UPPERCASE");
"""
MACRO_CASED_ENTRIES = [(n, n) for n in ("FrCasedCamel", "FrCasedScreamingKebab", "FrCasedPascal", "FrCasedEnumA", "FrCasedEnumB")]
