"""In-process macro monitor: builds the proc-macro crate's test binary with the verif-hooks feature and runs jobs."""
import json
import os
import subprocess

from . import common as C

TARGET_MACROS = os.path.join(C.WORK, "target-macros")
DIR = os.path.join(C.WORK, "inproc")


def esc(s):
    return s.replace("\\", "\\\\").replace("\n", "\\n").replace("\t", "\\t").replace("\r", "\\r")


def build(features=("serde-compat",)):
    """Returns the path of the test binary of ts-rs-macros built with verif-hooks + features."""
    os.makedirs(DIR, exist_ok=True)
    feats = ",".join(("verif-hooks",) + tuple(features))
    env = C.env_base()
    env["CARGO_TARGET_DIR"] = TARGET_MACROS
    cmd = ["cargo", "test", "--manifest-path", os.path.join(C.REPO, "macros", "Cargo.toml"), "--no-default-features",
           "--features", feats, "--lib", "--offline", "--no-run", "--message-format=json"]
    p = subprocess.run(cmd, env=env, stdout=subprocess.PIPE, stderr=subprocess.PIPE, text=True, timeout=1800)
    if p.returncode != 0:
        raise C.Inconclusive("macro crate test build failed:\n" + p.stderr[-3000:])
    exe = None
    for line in p.stdout.splitlines():
        if line.startswith("{"):
            try:
                m = json.loads(line)
            except ValueError:
                continue
            if m.get("reason") == "compiler-artifact" and m.get("executable") and m.get("target", {}).get("name") == "ts_rs_macros":
                exe = m["executable"]
    if not exe:
        raise C.Inconclusive("macro crate test binary not found in cargo output")
    return exe


def run_job(exe, tag, header, lines=(), timeout=3000):
    """header: dict; lines: iterable of (id, source). Returns the list of events."""
    job = os.path.join(DIR, f"{tag}.job")
    out = os.path.join(DIR, f"{tag}.jsonl")
    with open(job, "w") as f:
        f.write("\t".join(f"{k}={v}" for k, v in header.items()) + "\n")
        for i, src in lines:
            f.write(f"{i}\t{esc(src)}\n")
    if os.path.exists(out):
        os.remove(out)
    env = C.env_base()
    # test binaries of proc-macro crates link libstd dynamically; cargo would set this up for `cargo test`
    sysroot = subprocess.run(["rustc", "--print", "sysroot"], capture_output=True, text=True).stdout.strip()
    libs = [os.path.join(sysroot, "lib"), os.path.join(sysroot, "lib", "rustlib", "x86_64-unknown-linux-gnu", "lib")]
    env["LD_LIBRARY_PATH"] = ":".join(libs + [env.get("LD_LIBRARY_PATH", "")])
    env["TS_RS_VERIF_JOB"] = job
    env["TS_RS_VERIF_OUT"] = out
    p = subprocess.run([exe, "--exact", "verif_monitor::verif_driver", "--test-threads", "1"],
                       env=env, stdout=subprocess.PIPE, stderr=subprocess.STDOUT, text=True, timeout=timeout)
    evs = C.read_events(out)
    ok = p.returncode == 0 and evs and evs[-1].get("ev") == "end"
    return evs, ok, p.stdout[-2000:]


def run_jobs_parallel(exe, tag, header, lines, shards=C.NCPU, timeout=3000):
    """Split `lines` over several processes of the test binary."""
    from concurrent.futures import ThreadPoolExecutor
    lines = list(lines)
    chunks = [lines[i::shards] for i in range(shards)]
    chunks = [c for c in chunks if c]

    def one(args):
        i, chunk = args
        return run_job(exe, f"{tag}.{i}", header, chunk, timeout)
    with ThreadPoolExecutor(max_workers=shards) as ex:
        res = list(ex.map(one, enumerate(chunks)))
    evs, ok, outp = [], True, ""
    for e, o, t in res:
        evs.extend(e)
        ok = ok and o
        if not o:
            outp += t
    return evs, ok, outp
