"""`vf setup`: build the harness from files on disk (offline) and self-test the oracle."""
import os
import shutil

from . import common as C


def run():
    C.ensure_dirs()
    # stale generated crates from an earlier run must not break workspace resolution
    for n in os.listdir(C.GEN_DIR):
        d = os.path.join(C.GEN_DIR, n)
        if os.path.isdir(d) and not os.path.exists(os.path.join(d, "Cargo.toml")):
            shutil.rmtree(d, ignore_errors=True)
    p = C.sh(["cargo", "build", "--offline", "-p", "vsupport", "-p", "tsmodel", "-p", "vderive"], cwd=C.HARNESS, timeout=3000)
    if p.returncode != 0:
        print(p.stdout[-4000:])
        print("setup: harness build failed")
        return 1
    p = C.sh(["cargo", "test", "--offline", "-p", "tsmodel", "--", "--quiet"], cwd=C.HARNESS, timeout=3000)
    if p.returncode != 0:
        print(p.stdout[-4000:])
        print("setup: oracle self-test failed")
        return 1
    print("setup: harness built, oracle self-test passed")
    return 0
