"""C04 (well-formed modules holding exactly the requested types) and C15 (doc comments)."""
import re

import textgen
import tsgen

from . import common as C
from . import graph, inproc
from .corpus import Corpus, check_runs
from .fixedchk import cleanup_scratch

NOTICE = graph.NOTICE


def text_corpus(seed, tier, family, what, features=()):
    gens = []
    ncr = 4 if tier == "quick" else 8
    for i in range(ncr):
        tg = textgen.TextGen(seed * 1000 + 700 + i, "X" + chr(ord("a") + i))
        if what == "c04":
            if i == 0:
                tg.hostile_items()
            if i == 1:
                tg.impossible_type_names()
            tg.doc_groups(10 if tier == "quick" else 60)
            tg.merge_pairs(3)
        else:
            tg.doc_groups(60 if tier == "quick" else 400)
            tg.merge_pairs(12 if tier == "quick" else 60)
        gens.append((tg, tg.finish()))
    c = Corpus(family, [g for _tg, g in gens], entry_ctor="ts", features=tuple(features))
    info = {}
    for tg, _g in gens:
        info.update(tg.info)
    return c, info


def report_rejected(chk, pid, rejected, info, cfg):
    """every item of the text corpus is valid Rust with valid attributes: what rustc rejects is code the derive produced"""
    seen = set()
    for de in rejected:
        if de["item"] in seen:
            continue
        seen.add(de["item"])
        inf = info.get(de["item"], {})
        if inf.get("position") == "type-name-impossible" and not de.get("code"):
            # refused by the derive with a diagnostic of its own (no rustc error code): nothing is written for such a type
            chk.add_eval()
            chk.add_distinct(("type-name-impossible", inf.get("cls"), "diagnosed"))
            chk.hist("impossible_type_names", "diagnosed")
            continue
        chk.violation(f"{pid}|does-not-compile|{inf.get('position')}|{inf.get('cls')}" + (f"|{inf.get('form')}" if inf.get("form") else ""),
                      f"[{cfg}] item with {inf.get('position')} {inf.get('text')!r} is rejected by rustc: {de['message'][:200]}: {(de['source'] or '')[:300]}",
                      de, tags=[f"pos:{inf.get('position')}", f"cls:{inf.get('cls')}", "does-not-compile"])


TS_RESERVED = set("""break case catch class const continue debugger default delete do else enum export extends false finally for function if
import in instanceof new null return super switch this throw true try typeof var void while with implements interface let package private
protected public static yield await any unknown never number bigint boolean string symbol object undefined""".split())


def file_problems(f, expected_names=None):
    """C04 oracle on one described file; returns list of (kind, detail)."""
    out = []
    if f.get("parse_error"):
        return [("unparseable", f["parse_error"])]
    if f["first_line"] != NOTICE:
        out.append(("notice-missing", f["first_line"][:80]))
    if not f["ends_with_newline"]:
        out.append(("no-final-newline", ""))
    seen_decl = False
    for k in f["items"]:
        if k == "import":
            if seen_decl:
                out.append(("import-after-declaration", ""))
        elif k == "export-type":
            seen_decl = True
        else:
            out.append(("foreign-item", k))
    for imp in f["imports"]:
        if not imp["type_only"]:
            out.append(("import-not-type-only", imp["spec"]))
    names = [d["name"] for d in f["decls"]]
    for n in names:
        # (swc's grammar lets these through; tsc does not: a declared name is a BindingIdentifier, modules are strict code, and a
        # type alias may not take the name of a predefined type)
        if n in TS_RESERVED:
            out.append(("reserved-word-declared", n))
    if len(names) != len(set(names)):
        out.append(("declared-twice", sorted(n for n in set(names) if names.count(n) > 1)))
    if expected_names is not None and sorted(names) != sorted(expected_names):
        out.append(("declared-names-differ", f"declared {sorted(names)}, exported to this file {sorted(expected_names)}"))
    if f.get("stray_comments"):
        out.append(("stray-comment", f["stray_comments"]))
    return out


def c04(pid, tier, seed):
    chk = C.Check(pid, tier, seed)
    chk.rule = ("(a) text corpus (gen/textgen.py): one hostile element per item - rename / variant rename / tag / content / struct tag / "
                "variant-field rename strings over 23 classes (quotes, backslash, empty, `*/`, newline, emoji, keywords, ...), field, "
                "variant and type identifiers (raw, TypeScript keywords, non-ASCII), type names that cannot be declared, doc texts in every form - "
                "exported with dependencies, every other root over long leftovers of an earlier run at its output paths; "
                "(b) every file written by the graph corpus of C03. Oracle per file (swc): parses, first line is the notice, type-only "
                "imports then only `export type`, declared names = identifiers of the types exported to that path (each once), final "
                "newline, no comment detached from a declaration. Configurations: default, import-esm (alternating with the seed in "
                "quick), format (thorough). distinct_nontrivial = distinct (position, hostile class) + distinct placement signatures")
    chk.assumptions = ["hostile strings are not used as container names (a type alias name cannot be quoted); names that cannot be declared at all "
                       "(reserved words, non-identifiers) are a position of their own: refused by the derive, or whatever is written parses and "
                       "declares no reserved word",
                       "serde-compat off is covered in-process by C10, not by an end-to-end build"]
    try:
        configs = [()] if tier == "quick" else [(), ("vsupport/import-esm",), ("vsupport/format",)]
        if tier == "quick" and seed % 2 == 1:
            configs = [("vsupport/import-esm",)]
        for feats in configs:
            cfg = "+".join(f.split("/")[1] for f in feats) or "default"
            corpus, info = text_corpus(seed, tier, "text" + cfg.replace("-", "")[:3].replace("def", ""), "c04", feats)
            try:
                rejected = corpus.build()
            except C.Inconclusive as e:
                chk.note_inconclusive(str(e)[:1200])
                continue
            report_rejected(chk, "C04", rejected, info, cfg)
            results = corpus.run("exports", seed, tier)
            check_runs(chk, results, "exports")
            for r in results:
                for ev in r["events"]:
                    if ev.get("ev") != "root":
                        continue
                    inf = info.get(ev["id"].split("#")[0], {})
                    tags = [f"pos:{inf.get('position')}", f"cls:{inf.get('cls')}", cfg] + ([f"form:{inf.get('form')}"] if inf.get("form") else [])
                    if inf.get("position") == "merge-holder" and "block-blank" in (inf.get("forms") or [inf.get("form")]):
                        tags.append("blank-line-in-doc")      # two documented types merged into one file (known finding)
                    chk.add_distinct((inf.get("position"), inf.get("cls"), cfg))
                    if ev["result"] != "ok":
                        chk.violation(f"C04|export-failed|{inf.get('position')}|{inf.get('cls')}", f"export of {ev['rust']} failed: {ev['result']}",
                                      ev, tags=tags)
                        continue
                    expected = {}
                    for c in ev["collected"]:
                        expected.setdefault(graph.norm_join(ev["dname"], c["path"]), []).append(c["ident"])
                    for path, f in ev["files"].items():
                        chk.add_eval()
                        exp = expected.get(path)
                        if exp is not None:
                            exp = sorted(set(exp))
                        for kind, detail in file_problems(f, exp):
                            key = f"C04|{kind}|{inf.get('position')}|{inf.get('cls')}" + (f"|{inf.get('form')}" if inf.get("form") else "")
                            chk.violation(key, f"[{cfg}] {path} written for {ev['rust']} ({inf.get('position')}: {inf.get('text')!r}): {kind}: {detail}",
                                          {"root": ev["rust"], "path": path, "file": f, "info": inf}, tags=tags + [kind])
                    # the bindings directory cleaned, the same export once more: the files are complete again
                    for path, f in ((ev.get("reexport_after_delete") or {}).get("files") or {}).items():
                        chk.add_eval()
                        exp = expected.get(path)
                        for kind, detail in file_problems(f, sorted(set(exp)) if exp is not None else None):
                            key = f"C04|after-clean|{kind}|{inf.get('position')}|{inf.get('cls')}" + (f"|{inf.get('form')}" if inf.get("form") else "")
                            chk.violation(key, f"[{cfg}] {path} written again for {ev['rust']} after its files were deleted: {kind}: {detail}",
                                          {"root": ev["rust"], "path": path, "file": f, "info": inf}, tags=tags + [kind, "after-clean"])
                    # the string the user wrote arrives unchanged (as the TypeScript parser reads it back)
                    if inf.get("position") in ("field-rename", "variant-rename", "variant-rename-expr", "tag", "content", "struct-tag", "variant-field-rename"):
                        own = [d for f in ev["files"].values() for d in f.get("decls", []) if d["name"] == ev.get("ident")]
                        if own:
                            chk.add_eval()
                            if inf["text"] not in own[0]["strings"]:
                                chk.violation(f"C04|string-altered|{inf['position']}|{inf['cls']}",
                                              f"[{cfg}] {ev['rust']}: {inf['position']} {inf['text']!r} reads back as one of {own[0]['strings']}",
                                              {"root": ev["rust"], "info": inf, "strings": own[0]["strings"]}, tags=tags + ["string-altered"])
                    if len(chk.samples) < 4 and inf.get("cls") not in (None, "plain", "none", "helper"):
                        p0 = next(iter(ev["files"]), None)
                        chk.sample({"rust": ev["rust"], "hostile": inf, "file": p0})
        # (b) the graph corpus' files
        events, entries = graph.run_exports(chk, seed, tier, esm=False)
        for ev in events or []:
            it, args = entries[ev["id"]]
            if ev["result"] != "ok":
                continue
            expected = {}
            for c in ev["collected"]:
                expected.setdefault(graph.norm_join(ev["dname"], c["path"]), set()).add(c["ident"])
            chk.add_distinct(("graph", graph.placement_kind(it), len(ev["files"]) > 3))
            for path, f in ev["files"].items():
                chk.add_eval()
                exp = sorted(expected[path]) if path in expected else None
                for kind, detail in file_problems(f, exp):
                    chk.violation(f"C04|graph|{kind}|{it.id}", f"{path} written for {ev['rust']}: {kind}: {detail}",
                                  {"root": ev["rust"], "path": path, "file": f, "source": tsgen.emit_item(it)},
                                  tags=graph.tags_of(it) + graph.dep_ktags(it, args) + [kind, "graph"])
            for path, f in ((ev.get("reexport_after_delete") or {}).get("files") or {}).items():
                chk.add_eval()
                exp = sorted(expected[path]) if path in expected else None
                for kind, detail in file_problems(f, exp):
                    chk.violation(f"C04|graph|after-clean|{kind}|{it.id}", f"{path} written again for {ev['rust']} after its files were deleted: {kind}: {detail}",
                                  {"root": ev["rust"], "path": path, "file": f, "source": tsgen.emit_item(it)},
                                  tags=graph.tags_of(it) + graph.dep_ktags(it, args) + [kind, "graph", "after-clean"])
    finally:
        cleanup_scratch()
    return chk.finish(min_evaluations=300, min_distinct=40)


# ---------------------------------------------------------------------------------------------

def doc_lines_expected(inf):
    """the documentation lines that must be findable in the attached comment"""
    t = inf.get("text")
    if t is None:
        return []
    lines = [t.strip()]
    form = inf.get("form")
    if form == "two-lines":
        lines.append("second line")
    if form in ("block", "block-blank", "block+line", "block-nested"):
        lines = [t.replace("*/", "* /").replace("/*", "/ *").strip()]
    if form == "block+line":
        lines.append("trailing line")
    if form in ("attr-multiline", "attr-multiline+attr"):
        lines.append("second attr line")
    if form == "attr-multiline+attr":
        lines.append("third attr")
    if form == "block-nested":
        lines.append("nested")
        lines.append("tail")
    return [l for l in lines if l]


def c15(pid, tier, seed):
    chk = C.Check(pid, tier, seed)
    chk.rule = ("doc groups (gen/textgen.py): the same item without docs / with docs A / with docs B at one position (container, field, "
                "variant, variant field, flattened field; the documented field or container alone or together with another attribute: type, as, "
                "inline, optional, rename, serde(default), rename_all, optional_fields, tag) in one of five forms (///, two /// lines, #[doc = ..], /** */, /** with an empty "
                "line */) over 14 hostile text classes; monitor `declinfo` parses export_to_string() with swc. Oracle: the file parses; the "
                "declaration with comments stripped is identical within a group; container and named-field docs appear as exactly one block "
                "comment attached to the documented node and contain every doc line; no comment is detached; for pairs of documented types "
                "exported into one file in both orders each declaration keeps its own comment. In-process: parse_docs on generated doc "
                "attribute lists, each result wrapped in a module and parsed. distinct_nontrivial = distinct (position, form, text class)")
    chk.assumptions = ["variant documentation is not required to appear (the statement speaks of types and named fields)"]
    try:
        corpus, info = text_corpus(seed, tier, "docs", "c15")
        report_rejected(chk, "C15", corpus.build(), info, "default")
        results = corpus.run("declinfo", seed, tier)
        check_runs(chk, results, "declinfo")
        groups = {}
        singles = {}
        for r in results:
            for ev in r["events"]:
                if ev.get("ev") == "declinfo":
                    inf = info.get(ev["id"], {})
                    singles[ev["id"]] = ev
                    if inf.get("group"):
                        groups.setdefault(inf["group"], []).append((inf, ev))
                elif ev.get("ev") == "mergepair":
                    check_pair(chk, ev, info, singles)
        for gid, members in groups.items():
            base = None
            for inf, ev in sorted(members, key=lambda m: m[0]["variant"]):
                chk.add_eval()
                tags = [f"pos:{inf['position']}", f"form:{inf['form']}", f"cls:{inf['cls']}", f"shape:{inf['shape']}"] + \
                    ([f"with:{inf['ctx']}"] if inf.get("ctx") else [])
                if inf["cls"] != "none":
                    chk.add_distinct((inf["position"], inf["form"], inf["cls"]))
                    if inf.get("ctx"):
                        chk.add_distinct((inf["position"], "with", inf["ctx"]))
                key_tail = f"{inf['position']}|{inf['form']}|{inf['cls']}" + (f"|with:{inf['ctx']}" if inf.get("ctx") else "")
                src = None
                if ev["outcome"] != "ok":
                    chk.violation(f"C15|{ev['outcome']}|{key_tail}", f"{ev['rust']} ({inf['position']} docs {inf['text']!r} as {inf['form']}): "
                                  f"{ev['outcome']}: {ev.get('msg')}", {"event": ev, "info": inf}, tags=tags + [ev["outcome"]])
                    continue
                d = next((x for x in ev["decls"] if True), None)
                if d is None or len(ev["decls"]) != 1:
                    chk.violation(f"C15|declaration-count|{key_tail}", f"{ev['rust']}: {len(ev['decls'])} declarations in the file",
                                  {"event": ev, "info": inf}, tags=tags)
                    continue
                if ev["stray_comments"]:
                    chk.violation(f"C15|detached-comment|{key_tail}", f"{ev['rust']}: {ev['stray_comments']} comment(s) attached to nothing: {ev.get('text')}",
                                  {"event": ev, "info": inf}, tags=tags + ["detached-comment"])
                shape_now = (d["params"], re.sub(r"X[a-z]\d+", "X", d["body"]))
                if base is None:
                    base = (shape_now, ev)
                elif shape_now != base[0]:
                    chk.violation(f"C15|type-changed|{key_tail}", f"{ev['rust']}: documentation changed the declared type: {d['body'][:300]} vs {base[1]['decls'][0]['body'][:300]}",
                                  {"event": ev, "base": base[1], "info": inf}, tags=tags + ["type-changed"])
                want = doc_lines_expected(inf)
                if inf["position"] == "container":
                    check_attached(chk, d["docs"], want, ev, inf, key_tail, tags, "declaration")
                elif inf["position"] in ("field", "variant-field"):
                    check_attached(chk, d["prop_docs"].get("alpha", []), want, ev, inf, key_tail, tags, "property alpha")
                elif want:
                    pass  # variant / flattened-field docs: only neutrality is required
                if inf["cls"] == "none" and (d["docs"] or d["prop_docs"]):
                    chk.violation(f"C15|comment-without-docs|{key_tail}", f"{ev['rust']} has no documentation but a comment appears",
                                  {"event": ev}, tags=tags)
            if len(chk.samples) < 4 and members:
                inf, ev = members[-1]
                chk.sample({"group": gid, "position": inf["position"], "form": inf["form"], "text": (inf["text"] or "")[:80],
                            "file": (ev.get("text") or "")[:400]})
        inproc_docs(chk, seed, tier)
    except C.Inconclusive as e:
        chk.note_inconclusive(str(e)[:1200])
    finally:
        cleanup_scratch()
    return chk.finish(min_evaluations=200, min_distinct=30)


def check_attached(chk, blocks, want, ev, inf, key_tail, tags, where):
    if not want:
        return
    if len(blocks) != 1:
        chk.violation(f"C15|comment-blocks={len(blocks)}|{key_tail}", f"{ev['rust']}: {len(blocks)} comment blocks attached to the {where}, expected 1: "
                      f"{ev.get('text')}", {"event": ev, "info": inf}, tags=tags + ["comment-block-count"])
        return
    # `*/` cannot occur inside a block comment: the JSDoc spelling `*\/` stands for it
    carried = blocks[0].replace("*\\/", "*/")
    for line in want:
        if line not in carried:
            chk.violation(f"C15|doc-text-missing|{key_tail}", f"{ev['rust']}: the comment attached to the {where} lacks {line[:80]!r}: {blocks[0][:200]!r}",
                          {"event": ev, "info": inf}, tags=tags + ["doc-text-missing"])


def check_pair(chk, ev, info, singles):
    members = ev["members"]
    infs = [info.get(m, {}) for m in members]
    tags = ["pos:merge"] + [f"cls:{i.get('cls')}" for i in infs] + [f"form:{i.get('form')}" for i in infs]
    if any(i.get("form") == "block-blank" for i in infs):
        tags.append("blank-line-in-doc")
    if any(i.get("field_cls") == "mentions-sibling" for i in infs):
        tags.append("field-doc-mentions-sibling")
    for run in ev["runs"]:
        chk.add_eval()
        p = run["parsed"]
        key_tail = "+".join(sorted(f"{i.get('form')}:{i.get('cls')}" for i in infs))
        if "parse_error" in p:
            chk.violation(f"C15|merge-unparseable|{key_tail}", f"{ev['file']} after exporting {run['order']}: {p['parse_error']}",
                          {"pair": ev}, tags=tags + ["merge-unparseable"])
            continue
        got = {d["name"]: d for d in p["decls"]}
        for m in members:
            single = singles.get(m)
            if not single or single["outcome"] != "ok":
                continue
            sd = single["decls"][0]
            gd = got.get(sd["name"])
            if gd is None:
                chk.violation(f"C15|merge-lost-declaration|{key_tail}", f"{ev['file']} after {run['order']} lacks {sd['name']}", {"pair": ev}, tags=tags)
            elif (gd["docs"], gd["prop_docs"], gd["body"]) != (sd["docs"], sd["prop_docs"], sd["body"]):
                chk.violation(f"C15|merge-changed-docs|{key_tail}", f"{ev['file']} after {run['order']}: {sd['name']} does not carry its own comment "
                              f"({gd['docs']} vs {sd['docs']})", {"pair": ev}, tags=tags + ["merge-changed-docs"])
        if p.get("stray_comments"):
            chk.violation(f"C15|merge-detached-comment|{key_tail}", f"{ev['file']} after {run['order']}: detached comment", {"pair": ev}, tags=tags)


def inproc_docs(chk, seed, tier):
    """parse_docs on many attribute lists; each result is wrapped in a module and must stay one comment"""
    import random
    r = random.Random(seed)
    n = 3000 if tier == "quick" else 100000
    lines = []
    meta = {}
    for i in range(n):
        k = r.choice([1, 1, 2, 3])
        texts = [r.choice(textgen.DOC_TEXTS) for _ in range(k)]
        form = r.choice(["line", "attr", "block", "block-blank"])
        attrs = []
        for t in texts:
            attrs.extend(textgen.doc_attr_lines(r, t, form))
        src = "\n".join(attrs) + "\nstruct S;"
        lines.append((str(i), src))
        meta[str(i)] = (form, [t[0] for t in texts])
    exe = inproc.build(("serde-compat",))
    evs, ok, outp = inproc.run_jobs_parallel(exe, "c15docs", {"mode": "docs"}, lines)
    if not ok:
        chk.note_inconclusive("in-process parse_docs run did not finish: " + outp[-300:])
    # the wrapping/parsing happens in the fixed binary (it links swc)
    from .fixedchk import build_fixed, run_sharded
    import json
    import os
    path = os.path.join(C.WORK, "inproc", "c15docs.in.jsonl")
    with open(path, "w") as f:
        for e in evs:
            if e.get("ev") == "docs":
                f.write(json.dumps(e) + "\n")
    binp = build_fixed(())
    res = run_sharded(binp, "docscheck", seed, tier, 1, "c15docs", extra=["--input", path])
    for rr in res:
        for e in rr["events"]:
            if e.get("ev") == "docscheck":
                chk.add_eval()
                form, classes = meta[e["id"]]
                if e["problem"]:
                    chk.violation(f"C15|inproc|{e['problem']}|{form}|{'+'.join(sorted(set(classes)))}",
                                  f"parse_docs output for {form} docs {classes}: {e['problem']}: {e.get('docs', '')[:200]!r}",
                                  e, tags=[f"form:{form}"] + [f"cls:{c}" for c in classes] + [e["problem"]])
