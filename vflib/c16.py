"""C16: the derive is total – no panics, conflicts are diagnosed, the rest compiles."""
import os
import random
import re

import attrgen

from . import common as C
from . import inproc

OPTION_MSG = "can only be used on fields of type `Option`"


def item_compilable_by_construction(it):
    """Items the generator knows rustc must accept once the derive accepted them."""
    has_tparams = any(not p.strip().startswith(("'", "const ")) for p in it.generics.strip("<>").split(",") if p.strip())
    for _sp, k, _t in it.cattrs:
        if k == "bound" and has_tparams:
            return False
        if k == "concrete":
            return False
    def fields_ok(fs):
        for _n, ty, attrs in fs:
            ks = {k for _sp, k, _t in attrs}
            if "optional" in ks and (not ty.startswith("Option<") or "as" in ks):
                return False
            if "as" in ks and any("Option<_>" in t for _sp, k, t in attrs if k == "as") and "T" in ty:
                pass
        return True
    if it.kind == "struct":
        return fields_ok(it.fields)
    return all(fields_ok(fs) for _n, _s, _a, fs in it.variants)


def run(pid, tier, seed):
    chk = C.Check(pid, tier, seed)
    n = 60000 if tier == "quick" else 1500000
    chk.rule = (f"(a) {n} grammar-generated items (struct/enum shapes x random subsets of every attribute key at container/variant/field level "
                "with valid and malformed values, ts and serde spellings, unknown serde keys x generics with lifetimes/const/bounds/where/"
                "defaults x unusual identifiers) expanded in-process by the real derive under catch_unwind; outcome must not be a panic and "
                "items matching a rule of the incompatibility table (gen/attrgen.py, transcribed from the pinned commit's diagnostics) must be "
                "rejected. (b) compile batches through the real #[derive(TS)]: accepted items must compile; `optional` on a non-Option field "
                "must fail with the IsOption diagnostic; conflicting items must fail to compile. distinct_nontrivial = distinct (shape, "
                "generics kind, sorted attribute keys per level) signatures")
    chk.assumptions = ["the incompatibility table is a transcription of the diagnostics in macros/src/attr/*.rs at the pinned commit"]
    r = random.Random(seed)
    items = {}
    lines = []
    for i in range(n):
        it, must_err = attrgen.gen_c16_item(r, i)
        src = it.render(grouped=r.random() < 0.3)
        items[str(i)] = (it, must_err, src)
        lines.append((str(i), src))
    outcomes = {}
    for feats in (("serde-compat",), ("serde-compat", "no-serde-warnings")) if tier == "quick" else \
            (("serde-compat",), ("serde-compat", "no-serde-warnings"), (), ("no-serde-warnings",)):
        exe = inproc.build(feats)
        part = lines if feats == ("serde-compat",) else lines[: max(2000, len(lines) // 10)]
        evs, ok, outp = inproc.run_jobs_parallel(exe, "c16-" + ("-".join(feats) or "none"), {"mode": "expand", "canon": "0"}, part)
        if not ok:
            chk.note_inconclusive(f"in-process run ({feats}) did not finish: {outp[-400:]}")
        cfg = "+".join(feats) or "no-features"
        for e in evs:
            if e.get("ev") != "item":
                continue
            it, must_err, src = items[e["id"]]
            chk.add_eval()
            chk.hist("outcomes:" + cfg, e["outcome"])
            sig = signature(it)
            chk.add_distinct(sig)
            if feats == ("serde-compat",):
                outcomes[e["id"]] = e["outcome"]
            if e["outcome"] == "unparsable":
                chk.note_inconclusive(f"generator emitted an item the tokenizer rejects: {src[:200]} :: {e['msg']}")
            elif e["outcome"] == "panic":
                key = f"C16|panic|{panic_class(e['msg'])}"
                chk.violation(key, f"derive panicked on `{src[:300]}`: {e['msg'][:200]}", {"source": src, "panic": e["msg"], "features": cfg},
                              tags=["panic"])
            elif e["outcome"] == "ok" and must_err and "serde-compat" in feats:
                # (without serde-compat, conflicts that involve a serde-spelled attribute do not exist)
                key = f"C16|accepted-incompatible|{must_err[0]}"
                chk.violation(key, f"derive accepted `{src[:300]}` although: {must_err[0]}", {"source": src, "rules": must_err, "features": cfg},
                              tags=["accepted-incompatible"])
            elif e["outcome"] == "ok" and must_err and all_ts(it, must_err):
                key = f"C16|accepted-incompatible|{must_err[0]}"
                chk.violation(key, f"derive accepted `{src[:300]}` although: {must_err[0]}", {"source": src, "rules": must_err, "features": cfg},
                              tags=["accepted-incompatible"])
            if e["outcome"] == "err" and must_err:
                chk.hist("table_rules_exercised", must_err[0])
    some = [(i, items[i][2]) for i in list(items)[:3]]
    for i, src in some:
        chk.sample({"item": src, "outcome": outcomes.get(i), "must_be_rejected_because": items[i][1]})
    compile_batches(chk, r, items, outcomes, tier)
    corpus_rejections(chk, seed, tier)
    return chk.finish(min_evaluations=10000, min_distinct=500)


def corpus_rejections(chk, seed, tier):
    """(c) the serde-valid programs of the semantic and graph corpora must be accepted by the derive and compile."""
    from . import graph, sem
    for name, corpus in (("sem", sem.sem_corpus(seed, tier, family="c16sem", fixed=True)),
                         ("graph", graph.graph_corpus(seed, tier, family="c16graph"))):
        try:
            derive_errors = corpus.build()
        except C.Inconclusive as e:
            derive_errors = getattr(e, "derive_errors", None)
            if not derive_errors:
                chk.note_inconclusive(str(e)[:800])
                continue
            # so many items are rejected that the corpus never builds: the rejections themselves are the result
        n = sum(len(g.items) for g in corpus.gens)
        chk.add_eval(n)
        chk.coverage_extra.setdefault("corpus_items_compiled", {})[name] = n
        seen = set()
        for de in derive_errors:
            if de["item"] in seen:
                continue
            seen.add(de["item"])
            msg = re.sub(r"`[^`]*`", "`_`", de["message"] or "")[:80]
            if "is not satisfied" in msg and "TS" in (de["message"] or "") and "Q" in (de["message"] or "") + "G":
                # a dependent of a rejected item (`X: TS` not satisfied for a corpus type): secondary
                if re.search(r"`(Q|G)[a-z]\d+", de["message"] or ""):
                    continue
            chk.violation(f"C16|corpus-item-rejected|{msg}", f"a generated ({name}) item that serde accepts is rejected: {de['message'][:200]}: "
                          f"{(de['source'] or '')[:400]}", de, tags=["corpus-item-rejected"])
    C.remove_crates("c16sem_")
    C.remove_crates("c16graph_")
    # (d) hostile strings, identifiers and documentation at every position (gen/textgen.py)
    import textgen
    from .corpus import Corpus
    tg = textgen.TextGen(seed * 1000 + 77, "Y" + "a")
    tg.hostile_items()
    tg.doc_groups(40 if tier == "quick" else 300)
    corpus = Corpus("c16text", [tg.finish()], entry_ctor="ts")
    try:
        try:
            rejected = corpus.build()
        except C.Inconclusive as e:
            rejected = getattr(e, "derive_errors", None)
            if not rejected:
                raise
        chk.add_eval(len(tg.items))
        chk.coverage_extra.setdefault("corpus_items_compiled", {})["text"] = len(tg.items)
        seen = set()
        for de in rejected:
            if de["item"] in seen:
                continue
            seen.add(de["item"])
            inf = tg.info.get(de["item"], {})
            chk.violation(f"C16|hostile-text-rejected|{inf.get('position')}|{inf.get('cls')}",
                          f"item with {inf.get('position')} {inf.get('text')!r} is rejected by rustc: {de['message'][:200]}: {(de['source'] or '')[:300]}",
                          de, tags=["hostile-text-rejected", f"cls:{inf.get('cls')}"])
    except C.Inconclusive as e:
        chk.note_inconclusive(str(e)[:800])
    C.remove_crates("c16text_")


def all_ts(it, must_err):
    """True when no serde-spelled attribute takes part (so the conflict exists without serde-compat too)."""
    def any_serde(attrs):
        return any(sp == "serde" for sp, _k, _t in attrs)
    if any_serde(it.cattrs):
        return False
    for _n, _t, a in it.fields:
        if any_serde(a):
            return False
    for _n, _s, va, fs in it.variants:
        if any_serde(va) or any(any_serde(a) for _n2, _t2, a in fs):
            return False
    return True


def signature(it):
    def ks(attrs):
        return ",".join(sorted({f"{sp[0]}:{k}" for sp, k, _t in attrs}))
    if it.kind == "struct":
        body = "|".join(ks(a) for _n, _t, a in it.fields)
        return f"struct-{it.shape}<{it.generics}>[{ks(it.cattrs)}]{{{body}}}"
    body = "|".join(f"{s}[{ks(a)}]{{{'|'.join(ks(fa) for _n, _t, fa in fs)}}}" for _n, s, a, fs in it.variants)
    return f"enum<{it.generics}>[{ks(it.cattrs)}]{{{body}}}"


def panic_class(msg):
    return re.sub(r"\d+", "N", re.sub(r"`[^`]*`", "`_`", msg))[:80]


HEADER = """#![allow(dead_code, unused, non_camel_case_types, non_snake_case, non_upper_case_globals, uncommon_codepoints, mixed_script_confusables, clippy::all)]
use ts_rs::TS;
use vsupport::SerdeAttrs;
pub struct Inner { p: i32, q: String }
"""


FIXED_PRELUDE = """
pub trait Wire<Raw> { type Ts; }
pub struct Proto;
impl Wire<u8> for Proto { type Ts = bool; }
impl Wire<u64> for Proto { type Ts = String; }
impl Wire<Vec<u8>> for Proto { type Ts = Vec<String>; }
pub mod deep { pub mod er { pub struct Holder<A, B>(pub A, pub B); impl<A, B> Holder<A, B> { } pub trait Pick { type Out; } impl<A, B> Pick for Holder<A, B> { type Out = (A, B); } } }
#[derive(TS)] pub struct Leaf { pub n: i32 }
"""

# (expectation, definition): `_` of a field-level `as` stands for the field's type wherever a type can be written
FIXED_DEFINITIONS = [
    ("compiles", 'pub struct FdLast { #[ts(as = "Option<_>")] a: u8, #[ts(as = "Vec<Option<_>>")] b: String, #[ts(as = "std::collections::HashMap<String, _>")] c: Leaf }'),
    ("compiles", 'pub struct FdTuple { #[ts(as = "(_, Option<_>)")] a: u8, #[ts(as = "[_; 2]")] b: bool, #[ts(as = "Box<(_, _)>")] c: Leaf }'),
    ("compiles", 'pub struct FdTrait { #[ts(as = "<Proto as Wire<_>>::Ts")] a: u8, #[ts(as = "<Proto as Wire<_>>::Ts")] b: u64, #[ts(as = "<Proto as Wire<_>>::Ts", inline)] c: Vec<u8> }'),
    ("compiles", 'pub struct FdSelfAndTrait { #[ts(as = "<_ as std::ops::Mul<_>>::Output")] area: f64, #[ts(optional, as = "Option<<Proto as Wire<_>>::Ts>")] sum: u64 }'),
    ("compiles", 'pub struct FdTupleStruct(#[ts(as = "<Proto as Wire<_>>::Ts")] u8, #[ts(as = "<Proto as self::Wire<_>>::Ts")] u64);'),
    ("compiles", 'pub struct FdNewtype(#[ts(as = "<Proto as Wire<_>>::Ts")] Vec<u8>);'),
    ("compiles", 'pub enum FdEnum { Ping(#[ts(as = "<Proto as Wire<_>>::Ts")] u8), Data { #[ts(as = "<Proto as Wire<_>>::Ts")] bytes: Vec<u8> }, Two(#[ts(as = "Option<_>")] u8, #[ts(as = "<Proto as Wire<_>>::Ts")] u64) }'),
    ("compiles", 'pub struct FdMiddle { #[ts(as = "<deep::er::Holder<_, u8> as deep::er::Pick>::Out")] a: String, #[ts(as = "<deep::er::Holder<Option<_>, _> as deep::er::Pick>::Out")] b: bool }'),
    ("compiles", 'pub struct FdGeneric<T> { #[ts(as = "Option<_>")] a: T, #[ts(as = "<deep::er::Holder<_, _> as deep::er::Pick>::Out")] b: Vec<T> }'),
    ("compiles", '#[ts(tag = "t")] pub enum FdTagged { A { #[ts(as = "<Proto as Wire<_>>::Ts")] x: u8 }, B }'),
    # bounds on type parameters: `decl()` instantiates the type with placeholder types, which have to satisfy every bound a
    # derivable std trait can put on a parameter (inline bounds, where clauses, bounds implied by the fields' types)
    ("compiles", 'pub struct FdBoundOrd<K: Ord> { keys: std::collections::BTreeSet<K>, first: Option<K> }'),
    ("compiles", 'pub enum FdBoundEqHash<T> where T: Eq + std::hash::Hash { Seen(std::collections::HashSet<T>), One(T), Nothing }'),
    ("compiles", 'pub struct FdBoundAll<K: Copy + Clone + std::fmt::Debug + std::hash::Hash + Eq + PartialEq + Ord + PartialOrd, V: PartialOrd + PartialEq> where V: Clone + std::fmt::Debug { m: std::collections::BTreeMap<K, V>, h: std::collections::HashMap<K, Vec<V>> }'),
    ("compiles", 'pub struct FdBoundMixed<\'a, K: Ord + \'a, const N: usize, V: Eq = i32>(&\'a [K; N], V);'),
    ("compiles", '#[ts(tag = "t")] pub enum FdBoundTagged<K: Ord + Copy, V: Eq + std::hash::Hash> { A { k: K }, B { v: V, ks: Vec<K> } }'),
    # a variant has no type of its own that `_` could stand for
    ("either", 'pub enum FdVariantInfer { #[ts(as = "Vec<_>")] A(i32), B }'),
    ("either", 'pub enum FdVariantInferStruct { #[ts(as = "Option<_>")] A { x: i32 }, B }'),
    ("either", '#[ts(tag = "t")] pub enum FdVariantInferTagged { #[ts(as = "<Proto as Wire<_>>::Ts")] A(u8), B }'),
]


def write_lib_crate(name, body):
    d = os.path.join(C.GEN_DIR, name)
    os.makedirs(os.path.join(d, "src"), exist_ok=True)
    open(os.path.join(d, "Cargo.toml"), "w").write(f"""[package]
name = "{name}"
version = "0.0.0"
edition = "2021"

[dependencies]
vsupport = {{ workspace = true }}
ts-rs = {{ workspace = true }}
""")
    open(os.path.join(d, "src", "lib.rs"), "w").write(body)


def check_crate(name):
    p = C.sh(["cargo", "check", "--offline", "-p", name, "--message-format=json"], cwd=C.HARNESS, timeout=3000)
    return p.returncode, C.rustc_errors(p.stdout), p.stdout


def render_batch(entries):
    """entries: list of (id, source). Returns (text, line->id map)."""
    lines = HEADER.splitlines()
    owner = {}
    for i, src in entries:
        lines.append(f"// @item {i}")
        start = len(lines) + 1
        lines.append("#[derive(TS, SerdeAttrs)]")
        for l in src.splitlines():
            lines.append(l)
        for ln in range(start, len(lines) + 1):
            owner[ln] = i
        lines.append("")
    return "\n".join(lines) + "\n", owner


def compile_batches(chk, r, items, outcomes, tier):
    C.remove_crates("c16_")
    per = 40 if tier == "quick" else 400
    ncr = 16
    accepted = [i for i, o in outcomes.items() if o == "ok" and item_compilable_by_construction(items[i][0])]
    r.shuffle(accepted)
    accepted = accepted[: per * ncr]
    # batch A: must compile
    batches = [accepted[k::ncr] for k in range(ncr)]
    names = []
    owners = {}
    for k, b in enumerate(batches):
        if not b:
            continue
        name = f"c16_a{k}"
        text, owner = render_batch([(i, items[i][2]) for i in b])
        write_lib_crate(name, text)
        names.append(name)
        owners[name] = owner
    dropped = 0
    for rnd in range(3):
        # (`--tests`: the `#[cfg(test)]` export test generated for `#[ts(export)]` is part of the expansion)
        cmd = ["cargo", "check", "--offline", "--lib", "--tests", "--message-format=json"]
        for nme in names:
            cmd += ["-p", nme]
        p = C.sh(cmd, cwd=C.HARNESS, timeout=3000)
        errs = C.rustc_errors(p.stdout)
        if p.returncode == 0:
            break
        if not errs:
            chk.note_inconclusive("compile batch A failed without diagnostics: " + p.stdout[-800:])
            break
        bad = {}
        for e in errs:
            owner = owners.get(e["package"], {})
            iid = owner.get(e["line"] or -1)
            if iid is None:
                chk.note_inconclusive(f"batch A error not attributable to an item: {e['rendered'][:300]}")
                continue
            bad.setdefault((e["package"], iid), e)
        for (pkg, iid), e in bad.items():
            it, must_err, src = items[iid]
            # every type, path and expression the generator writes into an item exists, so whatever rustc rejects here is
            # code the derive produced (its tokens carry the span of the `#[derive]` line, not an expansion record)
            key = f"C16|expansion-does-not-compile|{re.sub(r'`[^`]*`', '`_`', e['message'])[:80]}"
            chk.violation(key, f"accepted item expands to code rustc rejects: `{src[:300]}`: {e['message'][:300]}",
                          {"source": src, "error": e["rendered"]},
                          tags=["expansion-does-not-compile"] + (["serde-bound-on-ts-impl"] if any(k == "!serde-bound" for _sp, k, _t in it.cattrs) else []))
        # rewrite crates without the offending items and retry
        for nme in names:
            k = int(nme[len("c16_a"):])
            batches[k] = [i for i in batches[k] if (nme, i) not in bad]
            text, owner = render_batch([(i, items[i][2]) for i in batches[k]])
            write_lib_crate(nme, text)
            owners[nme] = owner
    n_a = sum(len(b) for b in batches)
    chk.add_eval(n_a)
    chk.coverage_extra["compile_batches"] = {"A_compiled": n_a, "A_dropped_as_generator_errors": dropped}
    if n_a < 50:
        chk.note_inconclusive(f"only {n_a} items in the must-compile batch")

    # batch B: optional on a non-Option field must be rejected with the IsOption diagnostic
    b_entries = []
    for j, ty in enumerate(["i32", "String", "Vec<i32>", "(i32, i32)", "Box<Option<i32>>", "T", "[u8; 2]", "bool"]):
        for form in ("optional", "optional = nullable"):
            gen = "<T>" if ty == "T" else ""
            b_entries.append((f"B{j}{'n' if 'null' in form else 'o'}", f"struct OptB{j}{'n' if 'null' in form else 'o'}{gen} {{ #[ts({form})] f: {ty}, g: Option<i32> }}"))
            # ... also inside a struct that makes its Option fields optional anyway, and in a struct variant
            for k, cattr in enumerate(["#[ts(optional_fields)] ", "#[ts(optional_fields = nullable)] "]):
                sfx = f"{j}{'n' if 'null' in form else 'o'}c{k}"
                b_entries.append((f"B{sfx}", f"{cattr}struct OptB{sfx}{gen} {{ #[ts({form})] f: {ty}, g: Option<i32> }}"))
            sfx = f"{j}{'n' if 'null' in form else 'o'}v"
            b_entries.append((f"B{sfx}", f"enum OptB{sfx}{gen} {{ V {{ #[ts({form})] f: {ty}, g: Option<i32> }}, W }}"))
    text, owner = render_batch(b_entries)
    write_lib_crate("c16_b", text)
    rc, errs, out = check_crate("c16_b")
    hit = {owner.get(e["line"] or -1) for e in errs if OPTION_MSG in (e["message"] + e["rendered"])}
    for i, src in b_entries:
        chk.add_eval()
        if i not in hit:
            chk.violation("C16|optional-on-non-option-accepted", f"`{src}` was not rejected with the IsOption diagnostic (rc={rc})",
                          {"source": src, "errors": [e["message"] for e in errs][:10]}, tags=["optional-on-non-option-accepted"])
    # batch C: conflicts surface as compile errors through the real derive
    rej = [i for i, o in outcomes.items() if o == "err" and items[i][1]][:40]
    text, owner = render_batch([(i, items[i][2]) for i in rej])
    write_lib_crate("c16_c", text)
    rc, errs, out = check_crate("c16_c")
    hit = {owner.get(e["line"] or -1) for e in errs}
    for i in rej:
        chk.add_eval()
        if i not in hit:
            chk.violation("C16|conflict-not-surfaced", f"`{items[i][2][:300]}` compiled although the derive reports {items[i][1][0]}",
                          {"source": items[i][2], "rules": items[i][1]}, tags=["conflict-not-surfaced"])
    # batch D: hand-written definitions around `_` in `as` (the generator's values for `as` are few). `compiles`: the derive accepts
    # them and the expansion has to compile; `either`: compiles, or is rejected by the derive with a diagnostic of its own (an
    # error without a rustc error code) - an error *with* a code is rustc rejecting the expansion
    d_entries = [(f"D{j}", want, src) for j, (want, src) in enumerate(FIXED_DEFINITIONS)]
    lines = (HEADER + FIXED_PRELUDE).splitlines()
    owner = {}
    for i, _want, src in d_entries:
        start = len(lines) + 1
        lines.append("#[derive(TS)]")
        lines.extend(src.splitlines())
        for ln in range(start, len(lines) + 1):
            owner[ln] = i
        lines.append("")
    write_lib_crate("c16_d", "\n".join(lines) + "\n")
    rc, errs, out = check_crate("c16_d")
    by_item = {}
    for e in errs:
        iid = owner.get(e["line"] or -1)
        if iid is None:
            chk.note_inconclusive(f"batch D error not attributable to a definition: {e['rendered'][:300]}")
            continue
        by_item.setdefault(iid, []).append(e)
    if rc != 0 and not errs:
        chk.note_inconclusive("compile batch D failed without diagnostics: " + out[-600:])
    for i, want, src in d_entries:
        chk.add_eval()
        es = by_item.get(i, [])
        coded = [e for e in es if e.get("code")]
        if (want == "compiles" and es) or (want == "either" and coded):
            e = (coded or es)[0]
            key = f"C16|expansion-does-not-compile|fixed|{re.sub(r'`[^`]*`', '`_`', e['message'])[:80]}"
            chk.violation(key, f"accepted definition expands to code rustc rejects: `{src[:300]}`: {e['message'][:300]}",
                          {"source": src, "error": e["rendered"]}, tags=["expansion-does-not-compile", "fixed-definition"])
    chk.coverage_extra["compile_batches"].update({"B_optional_cases": len(b_entries), "C_conflict_cases": len(rej), "D_fixed_definitions": len(d_entries)})
    C.remove_crates("c16_")
