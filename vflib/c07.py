"""C07: declarations of generic types are parametric and well-scoped."""
import os

import gengen
import tsgen

from . import common as C
from .corpus import check_runs
from .fixedchk import cleanup_scratch


def run(pid, tier, seed):
    chk = C.Check(pid, tier, seed)
    ncr = 8 if tier == "quick" else 16
    per = 20 if tier == "quick" else 130
    chk.rule = (f"{ncr * per} generated generic definitions (gen/gengen.py: 1..3 type parameters mixed with a lifetime and a const parameter, "
                "defaults, concrete(..), parameters used bare / in Vec, Option, Box, map values, arrays, tuples / in other generics by name, "
                "inlined or flattened; named and tuple structs, enums in three representations) with 4..6 instantiations each (primitives, "
                "containers, argument-only user types, other instantiated generics). Oracle: decl() byte-identical across instantiations; "
                "parsed parameter list = non-concretised parameters in order with the expected defaults; no free name of decl() is "
                "unresolvable or belongs to an argument-only type; name() = ident<names of the arguments>; witnesses of the generic "
                "declaration expanded at the arguments are members of the body of decl_concrete() and vice versa; no panic. "
                "distinct_nontrivial = distinct (kind, parameter-use forms, lifetime, const, default, concrete) signatures")
    chk.assumptions = ["equivalence is bounded mutual inclusion of enumerated inhabitants (tsmodel witnesses, depth 3)"]
    try:
        C.remove_crates("gener_")
        gens = []
        names = []
        for i in range(ncr):
            g = gengen.GenericGen(seed * 1000 + 400 + i, "N" + chr(ord("a") + i))
            g.setup()
            if i == 0:
                g.fixed_definitions()
            for _ in range(per):
                g.definition()
            name = f"gener_{i}"
            C.write_crate(name, g.source())
            gens.append(g)
            names.append(name)
        p = C.cargo_build(names, json_diag=True)
        if p.returncode != 0:
            errs = C.rustc_errors(p.stdout)
            for e in errs[:6]:
                chk.violation("C07|does-not-compile|" + e["message"][:60], f"generated generic definition rejected by rustc: {e['rendered'][:600]}", e,
                              tags=["does-not-compile"])
            if not errs:
                chk.note_inconclusive("corpus build failed: " + p.stdout[-800:])
            return chk.finish()
        outdir = os.path.join(C.WORK, "events", "gener")
        os.makedirs(outdir, exist_ok=True)
        jobs = [(C.bin_path(n), ["--monitor", "C07", "--seed", str(seed), "--tier", tier], os.path.join(outdir, f"{n}.C07.jsonl")) for n in names]
        results = C.run_bins(jobs)
        check_runs(chk, results, "C07")
        for g, r in zip(gens, results):
            by_item = {}
            evs = {e["id"]: e for e in r["events"] if e.get("ev") == "generic"}
            leaf_names = {l.name for l in g.leaves}
            for eid, rust, ts_args, it, kinds in g.entries:
                ev = evs.get(eid)
                if ev is None:
                    chk.note_inconclusive(f"no event for {eid}")
                    continue
                by_item.setdefault(it.id, []).append((ev, kinds, ts_args))
            for iid, members in by_item.items():
                m = g.meta[iid]
                it = next(i for i in g.items if i.id == iid)
                sig = (m["kind"], tuple(sorted(m["uses"].values())), m["lifetime"], m["const"], bool(m["defaults"]), bool(m["concrete"]),
                       m["optional_fields"])
                chk.add_distinct(sig)
                tags = list(m["tags"]) + [f"use:{u}" for u in m["uses"].values()] + [f"kind:{m['kind']}"]
                src = tsgen.emit_item(it)
                decls = set()
                exports = set()
                for ev, kinds, ts_args in members:
                    chk.add_eval()
                    wit = {"rust": ev["rust"], "source": src, "event": {k: ev[k] for k in ("decl", "name", "decl_concrete", "inline", "params", "free", "equiv", "name_form")}}
                    for field in ("decl", "name", "decl_concrete", "inline"):
                        if "Err" in ev[field]:
                            chk.violation(f"C07|panic|{field}|{panic_class(ev[field]['Err'])}", f"{ev['rust']}::{field}() panicked: {ev[field]['Err'][:200]}",
                                          wit, tags=tags + ["panic"])
                    for pr in ev["problems"]:
                        if pr["kind"].startswith("panic"):
                            continue
                        chk.violation(f"C07|{pr['kind']}|{iid}", f"{ev['rust']}: {pr['kind']}: {pr['detail'][:300]}", wit, tags=tags + [pr["kind"]])
                    if "Ok" not in ev["decl"]:
                        continue
                    decls.add(ev["decl"]["Ok"])
                    ex = ev.get("exported") or {}
                    if "Ok" in ex:
                        exports.add(ex["Ok"])
                    elif "Panic" in ex:
                        chk.violation(f"C07|panic|export_to_string|{panic_class(ex['Panic'])}", f"{ev['rust']}::export_to_string() panicked: {ex['Panic'][:200]}",
                                      wit, tags=tags + ["panic"])
                    if not ev["parsed"]:
                        chk.violation(f"C07|unparseable-decl|{iid}", f"{ev['rust']}: decl() does not parse: {ev['decl']['Ok'][:300]}", wit, tags=tags + ["unparseable"])
                        continue
                    got_params = [p["name"] for p in ev["params"]]
                    if got_params != m["ts_params"]:
                        chk.violation(f"C07|parameter-list|{m['kind']}|concrete={bool(m['concrete'])}",
                                      f"{ev['rust']}: declaration is generic over {got_params}, expected {m['ts_params']}: {ev['decl']['Ok'][:200]}",
                                      wit, tags=tags + ["parameter-list"])
                    for p in ev["params"]:
                        has = p["default"] is not None
                        if has != (p["name"] in m["defaults"]):
                            chk.violation("C07|parameter-default", f"{ev['rust']}: parameter {p['name']} default present={has}, expected "
                                          f"{p['name'] in m['defaults']}: {ev['decl']['Ok'][:200]}", wit, tags=tags + ["parameter-default"])
                    if ev["unresolved"]:
                        chk.violation(f"C07|unbound-name|{m['kind']}", f"{ev['rust']}: decl() mentions {ev['unresolved']}, which is neither a parameter nor a "
                                      f"declared dependency: {ev['decl']['Ok'][:300]}", wit, tags=tags + ["unbound-name"])
                    leaked = sorted(set(ev["free"]) & leaf_names)
                    if leaked:
                        chk.violation(f"C07|argument-leaked|{m['kind']}", f"{ev['rust']}: decl() mentions the argument-only type(s) {leaked}: {ev['decl']['Ok'][:300]}",
                                      wit, tags=tags + ["argument-leaked"])
                    nf = ev["name_form"]
                    if nf and not (nf.get("head_is_ident") and nf.get("args_match")):
                        chk.violation(f"C07|name-form|{m['kind']}", f"{ev['rust']}: name() = {ev['name'].get('Ok')!r} is not {ev['ident'].get('Ok')}<{ev['arg_names']}>",
                                      wit, tags=tags + ["name-form"])
                    eq = ev["equiv"]
                    if "off-concrete" in kinds:
                        # `concrete(P = X)` with another argument for P: decl_concrete() describes that argument, not X
                        chk.hist("off_concrete_instantiations", m["kind"])
                        eq = None
                    if eq:
                        chk.hist("equivalence_witnesses", "expanded", eq["witnesses"][0])
                        chk.hist("equivalence_witnesses", "concrete", eq["witnesses"][1])
                        for direction in ("expanded_in_concrete", "concrete_in_expanded"):
                            v = eq[direction]
                            if isinstance(v, dict) and "counter_witness" in v:
                                argk = "+".join(sorted(set(kinds)))
                                chk.violation(f"C07|not-equivalent|{direction}|{m['kind']}|optional_fields={m['optional_fields']}",
                                              f"{ev['rust']}: {v['counter_witness']} inhabits one of (generic declaration expanded at the arguments, "
                                              f"decl_concrete) but not the other ({v['reason']} at /{'/'.join(v['path'])}): {ev['decl']['Ok'][:200]} vs "
                                              f"{ev['decl_concrete'].get('Ok', '')[:200]}", wit, tags=tags + ["not-equivalent", f"args:{argk}"])
                            elif isinstance(v, dict) and "inconclusive" in v:
                                chk.hist("equivalence_inconclusive", v["inconclusive"][:50])
                                # the concrete declaration of an instantiation cannot mention a parameter of the definition
                                mname = v["inconclusive"].split("unresolved-name:")[-1] if "unresolved-name:" in v["inconclusive"] else None
                                if mname in m["params"] and direction == "expanded_in_concrete":
                                    chk.violation(f"C07|parameter-in-concrete-declaration|{m['kind']}",
                                                  f"{ev['rust']}: decl_concrete() / inline() mentions the type parameter `{mname}`: "
                                                  f"{ev['decl_concrete'].get('Ok', '')[:200]}", wit, tags=tags + ["parameter-in-concrete-declaration"])
                if len(decls) > 1:
                    chk.violation(f"C07|decl-depends-on-arguments|{m['kind']}", f"{it.name}: decl() differs between instantiations: {sorted(decls)[:2]}",
                                  {"source": src, "decls": sorted(decls)}, tags=tags + ["decl-depends-on-arguments"])
                if len(exports) > 1:
                    chk.violation(f"C07|exported-text-depends-on-arguments|{m['kind']}",
                                  f"{it.name}: export_to_string() differs between instantiations: {sorted(exports)[:2]}",
                                  {"source": src, "exports": sorted(exports)}, tags=tags + ["exported-text-depends-on-arguments"])
                if len(chk.samples) < 4 and members:
                    ev = members[0][0]
                    chk.sample({"definition": src, "instantiation": ev["rust"], "decl": ev["decl"].get("Ok"), "name": ev["name"].get("Ok"),
                                "decl_concrete": ev["decl_concrete"].get("Ok")})
    except C.Inconclusive as e:
        chk.note_inconclusive(str(e)[:1200])
    finally:
        cleanup_scratch()
    return chk.finish(min_evaluations=200, min_distinct=30)


def panic_class(msg):
    import re
    return re.sub(r"\d+", "N", re.sub(r"^[A-Za-z0-9_<>, ]+ cannot", "_ cannot", msg.split(" @ ")[0]))[:60]
