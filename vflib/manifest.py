"""Writes /verif/MANIFEST.json from the table below (run: python3 -m vflib.manifest)."""
import json
import os
import subprocess

from . import common as C

TRUST = ("serde/serde_json (locked versions) define the wire format; swc_ecma_parser 0.144.1 defines TypeScript syntax; "
         "tsmodel (harness/tsmodel, self-tested on every setup) defines membership; rustc decides 'compiles'. "
         "Held = no counterexample among the executions described in the evidence file, not a proof.")

CHECKS = {
    "C01": ("exploration", "3.C01",
            "generated-program corpus + serde value monitor: JSON membership oracle over swc-parsed declarations",
            "Thousands of generated type definitions (all struct/enum shapes x representations x attributes x generics x nesting) are "
            "compiled against /repo, every structural sample value is serialized by serde_json and checked for membership in the "
            "declared type under three presentations (name via declarations, inline, decl_concrete). A counterexample is a real value "
            "of a real type; silence means none was found among the sampled programs and values."),
    "C02": ("exploration", "3.C02",
            "type-directed witness enumeration + near-miss mutants fed to serde's Deserialize, re-serialization re-checked",
            "For every generated type the model enumerates inhabitants of the declared TypeScript type (union arms, optional-property "
            "subsets, array lengths 0..2, map sizes 0..1) and structural mutants of real samples that still inhabit it; each is "
            "deserialized by serde from JSON text (both key orders) and the re-serialization must inhabit the type again."),
}

CHECKS.update({
    "C05": ("exploration", "3.C05",
            "permutation fold of the real merge() against an swc-built reference + real exports in every order + seeded concurrent "
            "schedules with an event-log mutual-exclusion checker",
            "Three monitors over the real merge/export code: every permutation and prefix of sets of single-type files folded through merge() "
            "and compared byte-for-byte with a reference composition built from swc-parsed parts; real exports of the types sharing a file in "
            "every order (and again, for idempotence); barrier-released threads with seeded delays at the probe points, where the recorded event "
            "log must show no second thread inside export_and_merge's read-merge-write section and the final bytes must equal the reference. "
            "The evidence lists the distinct lock-acquisition orders actually observed."),
    "C06": ("exploration", "3.C06",
            "history enumeration over the export entry points with directory-snapshot oracle against the canonical tree of the same set",
            "Tens of thousands of call sequences (all ordered pairs of (type, entry point) + random longer ones) over seven configurations of the export "
            "directory (one of them through a symbolic link), four initial directory states and, now and then, a removal of the whole output tree in mid-history are executed against the real exporter; the final tree must equal the canonical tree "
            "of the exported declaration set, no declaration may disappear between steps, stale bytes and unrelated files are checked."),
    "C08": ("exploration", "3.C08",
            "exhaustive path-pair enumeration through the real import_path with an independent lexical resolver (cross-checked with posixpath "
            "and the file system)",
            "Every pair of importing/imported file paths up to the depth bound over an alphabet with `.`, `..`, dotted names and names ending in "
            "`ts`, under eight base-directory spellings and both import-esm settings, is pushed through the function generate_imports uses; an "
            "independent resolver decides whether the specifier is relative, extension-free and denotes the dependency's file. End to end, "
            "every import statement written by real exports (many roots in one process, differently named base directories) must resolve "
            "to a written file that declares the imported names."),
    "C17": ("fault_enumeration", "3.C17",
            "fault-injection histories (obstacle before one step, removed before retry) with snapshot/registry oracle against the fault-free run",
            "Histories of real export calls with one obstacle of each kind (target or dependency target is a directory, an ancestor is a file, path above "
            "the root - also after moving the working directory -, non-exportable roots, a recorded file replaced by a directory or emptied) injected before each position; the monitor checks the call returns "
            "Err rather than panicking, the registry lock is not poisoned, other files are untouched, and after removing the obstacle the retry "
            "leads to exactly the tree of the fault-free history."),
})

CHECKS.update({
    "C09": ("exploration", "3.C09",
            "exhaustive identifier enumeration in-process against serde_derive's own case.rs + call-site expansion checks + end-to-end "
            "value monitor on crates with unconventional identifiers",
            "Every identifier up to the length bound over a mixed alphabet is pushed through the routine the derive calls for fields and for "
            "variants and compared with serde_derive's RenameRule (its source file, included verbatim); the four places a rule can be written "
            "are checked on real expansions; generated crates with unconventional member names are compiled and their bindings compared with "
            "real serde_json output."),
    "C10": ("exploration", "3.C10",
            "variant-group (metamorphic) monitor over in-process expansions in four feature builds of the macro crate",
            "Groups of spellings that must be indistinguishable (ts vs serde, ts over serde, list shapes, unsupported keys inserted at every "
            "position) are expanded by the real derive and compared after canonicalising hash-order dependent parts; with serde-compat off "
            "serde-only members must equal the attribute-free item. Needs no expected output, so it covers every supported key at every level."),
    "C12": ("exploration", "3.C12",
            "table-driven value monitor for the built-in impls (serde_json output vs declared type, witnesses vs Deserialize, dependencies)",
            "A fixed table of ~200 library types (std, arrays of every length, tuples of every arity, maps over every key type, wrappers, "
            "feature-gated crates, compositions) with representative values: membership of serde's output in name()/inline(), agreement of "
            "the two spellings, exact tuple lengths, legal index key types, "
            "deserialization of the declared type's inhabitants, documented keyword per kind, and type arguments reported as dependencies."),
    "C16": ("exploration", "3.C16",
            "grammar-based derive fuzzing in-process under catch_unwind with an independent incompatibility table + rustc compile batches",
            "Tens of thousands (thorough: millions) of generated items with random attribute subsets are expanded by the real derive inside "
            "the proc-macro crate's test binary; a panic or an accepted documented-incompatible combination is a violation; accepted items "
            "are compiled by rustc through the real #[derive(TS)], `optional` on non-Option must hit the IsOption diagnostic."),
})

CHECKS.update({
    "C03": ("exploration", "3.C03",
            "export observation over generated dependency graphs: swc-parsed files checked for import/use closure and specifier resolution",
            "Every type of a generated corpus (references, generics, defaults, inline/flatten, cycles, shared files, all placement forms) is "
            "exported with its dependencies under five directory spellings and both import-esm settings; each written file is parsed and its "
            "imports compared with the names its declarations use, every specifier resolved inside the same snapshot."),
    "C04": ("exploration", "3.C04",
            "hostile-text corpus + graph corpus exports parsed by swc: module shape, declared-name multiset, read-back of user strings",
            "One hostile element per generated item (23 string classes x 6 positions, identifiers, doc texts) is exported; every written "
            "file must parse, start with the notice, hold only type-only imports followed by `export type`, declare exactly the exported "
            "identifiers and end with a newline; renamed strings must read back unchanged through the TypeScript parser."),
    "C11": ("exploration", "3.C11",
            "export observation with an IR-level reachability oracle and directory snapshots",
            "The set of files an export creates is compared with the closure computed from the generator's own IR (independent of ts-rs's "
            "dependency code) and the documented path rule; reported paths must be the written paths; unrelated files stay byte-identical; "
            "no directory is created that ends up empty."),
    "C15": ("exploration", "3.C15",
            "doc-group (metamorphic) monitor: declarations parsed by swc with and without documentation, comment attachment, merge pairs",
            "The same item is generated without docs and with two different hostile doc texts at each position and in each doc form; the "
            "parsed declaration must be identical, the comment attached exactly once to the documented node and contain the text, no comment "
            "detached; pairs of documented types merged into one file in both orders keep their own comments; parse_docs is additionally "
            "driven in-process on thousands of attribute lists."),
})

CHECKS.update({
    "C07": ("exploration", "3.C07",
            "relational monitor over generated generic definitions and instantiations (decl identity, scope, name form, witness equivalence)",
            "Each generated generic definition is instantiated at 4..6 argument tuples; the monitor compares decl() across instantiations, "
            "checks the parsed parameter list and defaults, resolves every free name, forbids argument-only type names, parses name(), and "
            "decides equivalence of the generic declaration expanded at the arguments with decl_concrete() by bounded mutual inclusion of "
            "enumerated inhabitants."),
    "C13": ("exploration", "3.C13",
            "differential monitor across independent compilations, repetitions, thread counts and export orders",
            "The same generated source is built as several packages (each expanded by a fresh macro process); every public string and every "
            "export tree (1/4/16 threads, shuffled orders, repeated; all types through export_all, and fixed subsets through export / "
            "export_all mixed) must be byte-identical path by path; every package asks for the strings in its own order, failing renders "
            "included; the in-process driver reports how many items "
            "really showed different raw token orders in 20 expansions, so that silence is meaningful."),
})

CHECKS.update({
    "C14": ("exploration", "3.C14",
            "presentation-group (metamorphic) monitor: bounded semantic equivalence of by-name / inline / flatten / as presentations",
            "For every generated field type the same parent is emitted once per presentation; the model decides, by mutual inclusion of "
            "enumerated inhabitants, that inlining equals naming, flattening equals the model-built merge, `as` equals the twin textually, "
            "and that inline() of every type equals its declaration instantiated at its arguments."),
})

PENDING = {}


def main():
    props = [json.loads(l) for l in open(os.path.join(C.VERIF, "properties.jsonl"))]
    hooks = subprocess.run(["git", "-C", C.REPO, "log", "--format=%H %s"], capture_output=True, text=True).stdout.splitlines()
    hook_commits = [l.split()[0] for l in hooks if " verif-hooks:" in l]
    checks, na = [], []
    for p in props:
        pid = p["id"]
        if pid in CHECKS:
            level, ref, technique, text = CHECKS[pid]
            checks.append({
                "property_id": pid,
                "quick_cmd": f"./vf check {pid} --tier quick",
                "thorough_cmd": f"./vf check {pid} --tier thorough",
                "evidence_file": f"/verif/evidence/{pid}.json",
                "replay_cmd_template": "./vf replay {path}",
                "engine": "vf",
                "level_claimed": {"category": level, "text": text, "design_ref": f"DESIGN.md section {ref}"},
                "level_note": TRUST,
                "technique": "runtime monitoring: " + technique,
            })
        else:
            na.append({"property_id": pid, "reason": PENDING.get(pid, "check not built yet (work in progress in this session); not claimed")})
    m = {
        "version": 1,
        "setup_cmd": "./vf setup",
        "hooks": {
            "guard": "cargo feature `verif-hooks` (crates ts-rs and ts-rs-macros), off by default",
            "enable": "harness crates depend on ts-rs = { path = \"/repo/ts-rs\", features = [\"verif-hooks\", ..] }; the macro crate's in-process "
                      "monitor is built by `cargo test --manifest-path /repo/macros/Cargo.toml --features verif-hooks --lib` with TS_RS_VERIF_DIR=/verif",
            "baseline_off_cmd": "cd /repo && cargo nextest run --workspace --no-fail-fast --test-threads 8 --offline",
            "source_commits": hook_commits,
            "add_only": True,
        },
        "engines": [{"name": "vf", "path": "/verif/vf", "serves_properties": sorted(CHECKS),
                     "kind_free_text": "python driver: generates corpora (gen/), builds them against /repo in harness/ (cargo workspace: tsmodel, vsupport, "
                                       "vderive), runs the monitor binaries, decides verdicts from their event logs, writes evidence"}],
        "checks": checks,
        "notes": "exit 0 = held on everything explored (KNOWN-FINDING lines for listed defects), 1 = VIOLATION, 2 = INCONCLUSIVE (never a violation). "
                 "Known findings: /verif/known_findings.json.",
        "not_applicable": na,
    }
    with open(os.path.join(C.VERIF, "MANIFEST.json"), "w") as f:
        json.dump(m, f, indent=1)
    print(f"MANIFEST.json: {len(checks)} checks, {len(na)} not claimed")


if __name__ == "__main__":
    main()
