"""Writes /verif/MANIFEST.json from the table below (run: python3 -m vflib.manifest)."""
import json
import os
import subprocess

from . import common as C

TRUST = ("serde/serde_json (locked versions) define the wire format; swc_ecma_parser 0.144.1 defines TypeScript syntax; "
         "tsmodel (harness/tsmodel, self-tested on every setup) defines membership; rustc decides 'compiles'. "
         "Held = no counterexample among the executions described in the evidence file, not a proof.")

CHECKS = {
    "C01": ("exploration", "3.C01",
            "generated-program corpus + serde value monitor: JSON membership oracle over swc-parsed declarations",
            "Thousands of generated type definitions (all struct/enum shapes x representations x attributes x generics x nesting) are "
            "compiled against /repo, every structural sample value is serialized by serde_json and checked for membership in the "
            "declared type under three presentations (name via declarations, inline, decl_concrete). A counterexample is a real value "
            "of a real type; silence means none was found among the sampled programs and values."),
    "C02": ("exploration", "3.C02",
            "type-directed witness enumeration + near-miss mutants fed to serde's Deserialize, re-serialization re-checked",
            "For every generated type the model enumerates inhabitants of the declared TypeScript type (union arms, optional-property "
            "subsets, array lengths 0..2, map sizes 0..1) and structural mutants of real samples that still inhabit it; each is "
            "deserialized by serde from JSON text (both key orders) and the re-serialization must inhabit the type again."),
}

PENDING = {}


def main():
    props = [json.loads(l) for l in open(os.path.join(C.VERIF, "properties.jsonl"))]
    hooks = subprocess.run(["git", "-C", C.REPO, "log", "--format=%H %s"], capture_output=True, text=True).stdout.splitlines()
    hook_commits = [l.split()[0] for l in hooks if " verif-hooks:" in l]
    checks, na = [], []
    for p in props:
        pid = p["id"]
        if pid in CHECKS:
            level, ref, technique, text = CHECKS[pid]
            checks.append({
                "property_id": pid,
                "quick_cmd": f"./vf check {pid} --tier quick",
                "thorough_cmd": f"./vf check {pid} --tier thorough",
                "evidence_file": f"/verif/evidence/{pid}.json",
                "replay_cmd_template": "./vf replay {path}",
                "engine": "vf",
                "level_claimed": {"category": level, "text": text, "design_ref": f"DESIGN.md section {ref}"},
                "level_note": TRUST,
                "technique": "runtime monitoring: " + technique,
            })
        else:
            na.append({"property_id": pid, "reason": PENDING.get(pid, "check not built yet (work in progress in this session); not claimed")})
    m = {
        "version": 1,
        "setup_cmd": "./vf setup",
        "hooks": {
            "guard": "cargo feature `verif-hooks` (crates ts-rs and ts-rs-macros), off by default",
            "enable": "harness crates depend on ts-rs = { path = \"/repo/ts-rs\", features = [\"verif-hooks\", ..] }; the macro crate's in-process "
                      "monitor is built by `cargo test --manifest-path /repo/macros/Cargo.toml --features verif-hooks --lib` with TS_RS_VERIF_DIR=/verif",
            "baseline_off_cmd": "cd /repo && cargo nextest run --workspace --no-fail-fast --test-threads 8 --offline",
            "source_commits": hook_commits,
            "add_only": True,
        },
        "engines": [{"name": "vf", "path": "/verif/vf", "serves_properties": sorted(CHECKS),
                     "kind_free_text": "python driver: generates corpora (gen/), builds them against /repo in harness/ (cargo workspace: tsmodel, vsupport, "
                                       "vderive), runs the monitor binaries, decides verdicts from their event logs, writes evidence"}],
        "checks": checks,
        "notes": "exit 0 = held on everything explored (KNOWN-FINDING lines for listed defects), 1 = VIOLATION, 2 = INCONCLUSIVE (never a violation). "
                 "Known findings: /verif/known_findings.json.",
        "not_applicable": na,
    }
    with open(os.path.join(C.VERIF, "MANIFEST.json"), "w") as f:
        json.dump(m, f, indent=1)
    print(f"MANIFEST.json: {len(checks)} checks, {len(na)} not claimed")


if __name__ == "__main__":
    main()
