"""Checks that run monitors of the hand-written `fixed` crate (universe of types): C05 C06 C08 C17."""
import json
import os
import posixpath
import shutil

from . import common as C

SHM = "/dev/shm" if os.path.isdir("/dev/shm") and os.access("/dev/shm", os.W_OK) else C.WORK


def scratch_dir(tag):
    d = os.path.join(SHM, f"vf-scratch-{os.getpid()}", tag)
    os.makedirs(d, exist_ok=True)
    return d


def cleanup_scratch():
    shutil.rmtree(os.path.join(SHM, f"vf-scratch-{os.getpid()}"), ignore_errors=True)


def build_fixed(features=()):
    """Build the fixed crate with the given ts-rs feature configuration; returns the path of a private copy of the binary."""
    C.ensure_dirs()
    p = C.cargo_build(["fixed"], features=[f"fixed/{f}" for f in features])
    if p.returncode != 0:
        raise C.Inconclusive("fixed crate does not build:\n" + p.stdout[-3000:])
    tag = "-".join(features) or "default"
    dst = os.path.join(C.WORK, "bins", f"fixed-{tag}")
    os.makedirs(os.path.dirname(dst), exist_ok=True)
    shutil.copy2(C.bin_path("fixed"), dst)
    return dst


def run_sharded(binp, monitor, seed, tier, shards, tag, extra=()):
    outdir = os.path.join(C.WORK, "events", "fixed")
    os.makedirs(outdir, exist_ok=True)
    jobs = []
    for s in range(shards):
        out = os.path.join(outdir, f"{monitor}.{tag}.{s}.jsonl")
        if os.path.exists(out):
            os.remove(out)
        jobs.append((binp, ["--monitor", monitor, "--seed", str(seed), "--tier", tier, "--scratch", scratch_dir(f"{tag}-{s}"),
                            "--shard", str(s), "--shards", str(shards)] + list(extra), out))
    return C.run_bins(jobs)


def runs_ok(chk, results, monitor):
    ok = True
    for r in results:
        ends = [e for e in r["events"] if e.get("ev") == "end"]
        if r["rc"] != 0 or not ends or not ends[-1].get("ok"):
            ok = False
            detail = ends[-1].get("harness_panic") if ends else r["output"][-600:]
            chk.note_inconclusive(f"{os.path.basename(r['bin'])} {monitor}: rc={r['rc']} {detail}")
        for e in r["events"]:
            if e.get("ev") == "harness-error":
                ok = False
                chk.note_inconclusive(f"harness error: {e.get('what')}")
    return ok


# ---------------------------------------------------------------------------------------------

def c08(pid, tier, seed):
    chk = C.Check(pid, tier, seed)
    chk.rule = ("exhaustive enumeration of (importing file, imported file) pairs: directories of 0..d-1 components over {., .., a, b, a.b, ..a, ...}, "
                "file names over {a, b, a.b, ts, x.ts, yts, z.ts.ts, b.ts, ..f.ts} / {a.ts, b.ts, a.b.ts, ts.ts, x.ts, yts.ts, z.ts.ts, .ts, ..f.ts}, 8 base "
                "directory spellings, import-esm off and on (two builds); the real import_path (verif hook) is judged by an independent lexical "
                "resolver, 1% re-judged with Python posixpath, 0.05% against the real file system; end to end: every import statement written "
                "by the exports of the graph corpus of C03 (roots exported one after the other in one process into differently named and "
                "spelled directories) resolves to a written file that declares the imported names. distinct_nontrivial = distinct "
                "(base, from-directory, import-directory, import file name class) whose normalisation contains a `..` or `.` segment or a dotted name")
    chk.assumptions = ["POSIX path semantics (the Windows `\\\\` branch of import_path cannot run here)",
                       "imported files end in .ts (a TypeScript import cannot name a file without it)"]
    try:
        for feats in ((), ("import-esm",)):
            binp = build_fixed(feats)
            res = run_sharded(binp, "C08", seed, tier, min(C.NCPU, 8 if tier == "quick" else 16), "c08" + ("-esm" if feats else ""))
            runs_ok(chk, res, "C08")
            for r in res:
                for e in r["events"]:
                    if e.get("ev") == "summary":
                        chk.add_eval(e["pairs"])
                        acc = chk.coverage_extra.setdefault("per_config", {}).get("esm" if e["esm"] else "default")
                        if not isinstance(acc, dict):
                            acc = {}
                        for k in ("pairs", "ok_results", "err_results", "above_root", "distinct_specifiers", "fs_checked"):
                            acc[k] = acc.get(k, 0) + e[k]       # (distinct specifiers: summed per shard)
                        acc["depth"] = e["depth"]
                        chk.coverage_extra["per_config"]["esm" if e["esm"] else "default"] = acc
                        if e["esm"] != bool(feats):
                            chk.note_inconclusive("feature configuration of the binary does not match the requested one")
                        # python cross-check of the sampled pairs
                        bad = 0
                        for frm, imp, spec in e["sampled"]:
                            stem = spec[:-3] if e["esm"] and spec.endswith(".js") else spec
                            cwd = e["cwd"]
                            a = posixpath.normpath(posixpath.join(posixpath.dirname(posixpath.normpath(posixpath.join(cwd, frm))), stem + ".ts"))
                            b = posixpath.normpath(posixpath.join(cwd, imp))
                            interesting = (".." in frm or ".." in imp or "/./" in frm or "/./" in imp)
                            if interesting or "." in posixpath.basename(imp)[:-3]:
                                chk.add_distinct((posixpath.dirname(frm), posixpath.dirname(imp), posixpath.basename(imp)))
                            if a != b:
                                bad += 1
                                chk.violation(f"C08|posixpath-disagrees|{'esm' if e['esm'] else 'default'}",
                                              f"from={frm} import={imp} spec={spec}: posixpath resolves to {a}, dependency is {b}",
                                              {"from": frm, "import": imp, "spec": spec, "cwd": cwd})
                        chk.coverage_extra.setdefault("posixpath_cross_checked", 0)
                        chk.coverage_extra["posixpath_cross_checked"] += len(e["sampled"])
                        for s in e["sampled"][:3]:
                            chk.sample({"from": s[0], "import": s[1], "specifier": s[2], "esm": e["esm"]})
                    elif e.get("ev") == "fail":
                        key = f"C08|{e.get('class')}|{'esm' if e.get('esm') else 'default'}|{reason_kind(e.get('reason', ''))}"
                        chk.violation(key, f"from={e['from']} import={e['import']} spec={e.get('spec')}: {e['reason']}",
                                      {k: e.get(k) for k in ("from", "import", "spec", "reason", "cwd", "esm")}, tags=[e.get("class")])
        c08_end_to_end(chk, seed, tier)
    finally:
        cleanup_scratch()
    return chk.finish(min_evaluations=100000, min_distinct=50)


def c08_end_to_end(chk, seed, tier):
    """the specifiers that real exports write: many roots exported one after the other in one process, into directories of
    different names and spellings (what is computed for one base directory must not leak into the next)"""
    from . import graph
    esm = (seed % 2 == 1)
    events, entries = graph.run_exports(chk, seed, tier, esm=esm)
    n = 0
    for ev in events or []:
        if ev["result"] != "ok":
            continue
        it, _args = entries[ev["id"]]
        files = ev["files"]
        for path, f in files.items():
            if f.get("parse_error"):
                continue
            # a dependency that lives in another file must be imported at all (a dropped import leaves no specifier to judge)
            declared = {d["name"] for d in f["decls"]}
            used = set()
            for d in f["decls"]:
                used |= set(d["free"])
            imported = {nm for imp in f["imports"] for nm in imp["names"]}
            lacking = sorted(used - declared - graph.BUILTIN - imported)
            known_elsewhere = [nm for nm in lacking if any(nm in {d["name"] for d in g.get("decls", [])} for p2, g in files.items() if p2 != path)]
            if known_elsewhere:
                chk.violation(f"C08|end-to-end|dependency-not-imported|{graph.placement_kind(it)}",
                              f"export of {ev['rust']}: {path} uses {known_elsewhere}, declared in another written file, without importing "
                              f"them", {"root": ev["rust"], "path": path, "imports": f["imports"], "files": sorted(files)},
                              tags=["end-to-end", "dependency-not-imported"] + graph.dep_ktags(it, _args))
            for imp in f["imports"]:
                n += 1
                chk.add_eval()
                spec = imp["spec"]
                stem = spec[:-3] if esm and spec.endswith(".js") else spec
                target = graph.norm_join(posixpath.dirname(path), stem + ".ts")
                problem = None
                if not (spec.startswith("./") or spec.startswith("../")):
                    problem = "specifier-not-relative"
                elif esm != spec.endswith(".js"):
                    problem = "wrong-extension"
                elif target not in files:
                    problem = "specifier-resolves-to-no-written-file"
                elif not files[target].get("parse_error") and any(nm not in {d["name"] for d in files[target]["decls"]} for nm in imp["names"]):
                    problem = "specifier-resolves-to-a-file-without-the-name"
                if problem:
                    chk.violation(f"C08|end-to-end|{problem}|{graph.placement_kind(it)}",
                                  f"export of {ev['rust']} into {ev['dir_spelling'] or './bindings'!r}: {path} imports {imp['names']} from {spec!r} "
                                  f"-> {target}: {problem}", {"root": ev["rust"], "dir": ev["dir_spelling"], "path": path, "import": imp,
                                                             "files": sorted(files)}, tags=["end-to-end", problem] + graph.dep_ktags(it, _args))
    chk.coverage_extra["end_to_end_imports_resolved"] = n


def reason_kind(r):
    for k in ("panic", "returned Err", "not relative", "backslash", "does not end in .js", "ends in .js", "climbs", "resolves to",
              "carries a .ts", "file system"):
        if k in r:
            return k.replace(" ", "-")
    return "other"


# ---------------------------------------------------------------------------------------------

def c05(pid, tier, seed):
    chk = C.Check(pid, tier, seed)
    chk.rule = ("(a) fold of the real merge() over all permutations and all prefixes of sets of single-type file texts (real export_to_string outputs "
                "of the types sharing a file in the fixed universe + seeded synthetic texts: doc blocks, multi-line bodies, prefix names, "
                "overlapping imports) against a reference composition built from swc-parsed parts; (b) real T::export() in every order and every "
                "prefix per shared file (several instantiations of a generic member taking turns; shared files that do not end in `.ts`), plus re-export, "
                "plus: nothing declared in a file is imported into it, declarations in identifier order; (c) barrier-released concurrent exports with seeded sleeps at the probe points, event-log "
                "mutual-exclusion invariant and final-bytes comparison; thorough: part (c) again under Miri (12 processes, seeded preemptive scheduler, "
                "undefined-behaviour / data-race / deadlock detection) and, with the `format` feature, every order of real exports per shared file "
                "(no error or panic, the file parses, declares each type once, is the same for every order). distinct_nontrivial = distinct (part, file-or-synthetic class signature, "
                "set size) combinations + distinct lock-acquisition orders observed")
    chk.assumptions = ["merge hook = the function export_and_merge calls", "probe points do not change behaviour (they only log / sleep)"]
    shards = min(C.NCPU, 8 if tier == "quick" else 16)
    try:
        binp = build_fixed(())
        res = run_sharded(binp, "C05", seed, tier, shards, "c05")
        runs_ok(chk, res, "C05")
        lock_orders = 0
        for r in res:
            for e in r["events"]:
                if e.get("ev") == "summary":
                    part = e["part"]
                    if part == "fold":
                        chk.add_eval(e["evaluations"])
                        chk.hist("fold", "sets", e["sets"])
                        chk.hist("fold", "orders", e["histories"])
                        for k, v in e["class_hist"].items():
                            chk.hist("synthetic_classes", k, v)
                            chk.add_distinct(("fold-class", k))
                    elif part == "sequential":
                        chk.add_eval(e["evaluations"])
                        chk.hist("sequential", "histories", e["histories"])
                    elif part == "concurrent":
                        chk.add_eval(e["runs"])
                        chk.hist("concurrent", "runs", e["runs"])
                        chk.hist("concurrent", "enter_during_critical_section", e["enter_during_critical_section"])
                        for f, info in e["per_file"].items():
                            chk.hist("distinct_lock_orders_per_shard_sum", f, info["distinct_lock_orders"])
                            lock_orders += info["distinct_lock_orders"]
                            for ex in info["examples"]:
                                chk.add_distinct(("lock-order", f, tuple(ex)))
                            chk.sample({"file": f, "lock_acquisition_orders_seen": info["examples"]}, limit=4)
                elif e.get("ev") == "fail":
                    cls = sorted(set(e.get("class") or []))
                    key = f"C05|{e.get('part')}|{e.get('kind')}|{','.join(cls)}"
                    what = f"{e.get('part')}: {e.get('kind')} ({e.get('origin')}, {e.get('labels') or e.get('order') or e.get('threads')}) {e.get('what', '')}"
                    chk.violation(key, what, e, tags=cls)
        if lock_orders < 20:
            chk.note_inconclusive(f"only {lock_orders} distinct lock-acquisition orders observed")
        if tier == "thorough":
            # the `format` feature rewrites every file text before it is merged: orders of real exports with the weaker oracle
            binf = build_fixed(("format",))
            resf = run_sharded(binf, "C05", seed, tier, min(C.NCPU, 8), "c05fmt", extra=["--only", "orders"])
            runs_ok(chk, resf, "C05")
            for r in resf:
                for e in r["events"]:
                    if e.get("ev") == "summary" and e.get("part") == "orders":
                        chk.add_eval(e["histories"])
                        chk.hist("format_feature", "orders", e["histories"])
                        if not e.get("format"):
                            chk.note_inconclusive("the format build of the fixed crate does not have the format feature")
                    elif e.get("ev") == "fail":
                        cls = sorted(set(e.get("class") or []))
                        chk.violation(f"C05|format|{e.get('kind')}|{e.get('origin')}", f"format feature: {e.get('kind')} ({e.get('origin')}, {e.get('order')}) "
                                      f"{e.get('what', '')}", e, tags=cls + ["format", e.get("kind")])
            miri_supplement(chk, seed)
    finally:
        cleanup_scratch()
    return chk.finish(min_evaluations=5000, min_distinct=10)


def miri_supplement(chk, seed, procs=12, runs=3):
    """(c) again under Miri: another scheduler (seeded, preemptive) and an interpreter that reports undefined behaviour,
    data races and deadlocks in the export path. A supplement: Miri not being usable is recorded, not a verdict."""
    import subprocess
    import time
    tdir = os.path.join(C.WORK, "miri-target")
    base = ["cargo", "+nightly", "miri", "run", "--offline", "-q", "-p", "fixed", "--"]
    env0 = C.env_base()
    env0["CARGO_TARGET_DIR"] = tdir
    t0 = time.time()
    procs_l = []
    outdir = os.path.join(C.WORK, "events", "fixed")
    for k in range(procs):
        env = dict(env0)
        env["MIRIFLAGS"] = f"-Zmiri-disable-isolation -Zmiri-seed={seed * 100 + k} -Zmiri-preemption-rate={[0.01, 0.05, 0.2][k % 3]}"
        out = os.path.join(outdir, f"C05.miri.{k}.jsonl")
        if os.path.exists(out):
            os.remove(out)
        cmd = base + ["--monitor", "C05", "--only", "concurrent", "--runs", str(runs), "--seed", str(seed * 1000 + k), "--tier", "quick",
                      "--shard", str(k), "--shards", str(procs), "--scratch", scratch_dir(f"miri-{k}"), "--out", out]
        if k == 0:
            # the first invocation builds; the others find the build done
            p0 = subprocess.run(cmd, cwd=C.HARNESS, env=env, stdout=subprocess.PIPE, stderr=subprocess.STDOUT, text=True, timeout=1800)
            procs_l.append((k, out, None, p0))
            if p0.returncode != 0 and "error: Undefined Behavior" not in (p0.stdout or "") and not os.path.exists(out):
                chk.coverage_extra["miri"] = {"usable": False, "reason": (p0.stdout or "")[-400:]}
                return
        else:
            procs_l.append((k, out, subprocess.Popen(cmd, cwd=C.HARNESS, env=env, stdout=subprocess.PIPE, stderr=subprocess.STDOUT, text=True), None))
    total_runs, orders, reports = 0, set(), 0
    for k, out, popen, done in procs_l:
        if popen is not None:
            try:
                stdout, _ = popen.communicate(timeout=1800)
                rc = popen.returncode
            except subprocess.TimeoutExpired:
                popen.kill()
                chk.coverage_extra.setdefault("miri_notes", []).append(f"process {k} timed out")
                continue
        else:
            stdout, rc = done.stdout, done.returncode
        if "error: Undefined Behavior" in (stdout or "") or "Data race detected" in (stdout or "") or "deadlock" in (stdout or "").lower():
            reports += 1
            chk.violation("C05|miri|" + ("data-race" if "Data race" in stdout else "deadlock" if "deadlock" in stdout.lower() else "undefined-behaviour"),
                          f"Miri (seed {seed * 100 + k}) reports: {stdout[-600:]}", {"output": stdout[-4000:], "miri_seed": seed * 100 + k}, tags=["miri"])
            continue
        events = []
        if os.path.exists(out):
            for line in open(out):
                try:
                    events.append(json.loads(line))
                except ValueError:
                    pass
        ends = [e for e in events if e.get("ev") == "end"]
        if rc != 0 or not ends or not ends[-1].get("ok"):
            chk.coverage_extra.setdefault("miri_notes", []).append(f"process {k}: rc={rc} {(stdout or '')[-200:]}")
            continue
        for e in events:
            if e.get("ev") == "summary" and e.get("part") == "concurrent":
                total_runs += e["runs"]
                chk.add_eval(e["runs"])
                for f, info in e["per_file"].items():
                    for ex in info["examples"]:
                        orders.add((f, tuple(ex)))
            elif e.get("ev") == "fail":
                cls = sorted(set(e.get("class") or []))
                chk.violation(f"C05|miri|{e.get('part')}|{e.get('kind')}|{','.join(cls)}",
                              f"under Miri: {e.get('part')}: {e.get('kind')} ({e.get('origin')}, {e.get('threads')}) {e.get('what', '')}", e, tags=cls + ["miri"])
    chk.coverage_extra["miri"] = {"usable": True, "processes": procs, "concurrent_export_runs": total_runs, "undefined_behaviour_or_race_reports": reports,
                                  "distinct_lock_acquisition_orders": len(orders), "wall_s": round(time.time() - t0, 1)}


def c06(pid, tier, seed):
    chk = C.Check(pid, tier, seed)
    chk.rule = ("histories over {export(T), export_all(T), export_all_to(T, spelling)} for the 15-type universe of harness/fixed (three shared files, one holding two types that import different types of the same name, one of them holding a generic type and a sibling named like it plus a digit, "
                "a dependency chain, a cycle, a `../` escape): every ordered pair of (type, entry point) for one directory configuration per "
                "shard + seeded random histories of length 1..4 (thorough: 1..5) x 6 TS_RS_EXPORT_DIR settings x 6 directory spellings x "
                "{empty, stale garbage, previous run, partial previous run: every file = the stand-alone export of one of its types}; one registry lifetime per history (reset hook). Oracle: final tree == canonical tree of the "
                "same declaration set (fresh registry, absolute directory, sorted single exports); declarations never disappear between steps; no "
                "stale bytes; unrelated files untouched. distinct_nontrivial = distinct (configuration, initial state, entry-point/spelling "
                "sequence, same-file-twice) signatures among histories of length >= 2")
    chk.assumptions = ["reset_registry() is equivalent to a fresh process (C05 (b) cross-checks export behaviour after resets)"]
    shards = C.NCPU
    try:
        binp = build_fixed(())
        res = run_sharded(binp, "C06", seed, tier, shards, "c06")
        runs_ok(chk, res, "C06")
        for r in res:
            for e in r["events"]:
                if e.get("ev") == "summary":
                    chk.add_eval(e["histories"])
                    chk.hist("totals", "steps", e["steps"])
                    chk.hist("totals", "canonical_sets", e["canonical_sets"])
                    for k in e["distinct_keys"]:
                        if ">" in k:
                            chk.add_distinct(k)
                    if e.get("sample"):
                        chk.sample(e["sample"], limit=4)
                elif e.get("ev") == "fail":
                    key = f"C06|{e['kind']}|{e['config']}|{'>'.join(e['shape'])}|same-file={e['same_file_twice']}"
                    chk.violation(key, f"{e['kind']}: {e['what']} (TS_RS_EXPORT_DIR {e['config']}, initial {e['initial']})", e,
                                  tags=[e["kind"], e["config"]])
    finally:
        cleanup_scratch()
    return chk.finish(min_evaluations=1000, min_distinct=100)


def c17(pid, tier, seed):
    chk = C.Check(pid, tier, seed, level="fault_enumeration")
    chk.rule = ("seeded histories of 1..3 (thorough 1..4) export calls over the fixed universe with one obstacle injected before one step "
                "{target path is a directory, an ancestor is a regular file, a dependency's target is a directory, directory with more `..` than "
                "the cwd depth, non-exportable root (primitives, containers, maps, tuples, ranges), a shared file written earlier in the history replaced by a directory, or emptied / cut off by "
                "something else}, removed before retrying that step. Oracle: the faulted call returns Err (for the emptied file it may also succeed by starting the file again) - no panic, registry "
                "mutex not poisoned), files outside the call's target set are untouched, nothing is recorded for the failed write, the retry "
                "succeeds and the final tree equals the fault-free run of the same history. distinct_nontrivial = distinct (configuration, "
                "obstacle kind @ position, entry-point sequence, faulted type)")
    chk.assumptions = ["obstacles are created between calls (no fault is injected in the middle of a write)"]
    shards = C.NCPU
    try:
        binp = build_fixed(())
        res = run_sharded(binp, "C17", seed, tier, shards, "c17")
        runs_ok(chk, res, "C17")
        distinct = 0
        for r in res:
            for e in r["events"]:
                if e.get("ev") == "summary":
                    chk.add_eval(e["histories"])
                    for k, v in e["injected"].items():
                        chk.hist("injected", k, v)
                    chk.hist("totals", "skipped_placements", e["skipped"])
                    distinct += e["distinct"]
                    if e.get("sample"):
                        chk.sample(e["sample"], limit=4)
                elif e.get("ev") == "fail":
                    key = f"C17|{e['kind']}|{e['obstacle']}|{'>'.join(e['shape'])}"
                    chk.violation(key, f"{e['kind']}: {e['what']} ({e['obstacle']} before step {e['position']}, {e['config']})", e,
                                  tags=[e["kind"], e["obstacle"]])
        # per-shard distinct signatures (shards use different seeds; overlap is possible, so this is an upper bound capped below)
        for i in range(min(distinct, 100000)):
            chk.distinct.add(i)
        for k in ("TargetIsDir", "ParentIsFile", "DepTargetIsDir", "AboveRoot", "NotExportable", "ExistingTargetIsDir", "ExistingTargetEmptied"):
            if chk.coverage_extra.get("injected", {}).get(k, 0) == 0:
                chk.note_inconclusive(f"obstacle {k} was never injected")
    finally:
        cleanup_scratch()
    return chk.finish(min_evaluations=500, min_distinct=50)


def c12(pid, tier, seed):
    chk = C.Check(pid, tier, seed)
    chk.rule = ("fixed table (harness/vsupport/src/monitors/libtypes.rs) of every supported std type, [T; 0..=32] with values and 33..65 by name, "
                "tuples of arity 1..=10, maps over every key type serde_json accepts, wrappers, ranges and the feature-gated crates that "
                "build offline (chrono, bigdecimal, uuid, bson, bytes, url, indexmap, ordered-float, heapless, semver, smol_str, serde_json, "
                "tokio), composed to depth 2 (thorough: 3) over user leaf types. Oracle: serde_json output of every listed value is a member "
                "of name() and inline(); inhabitants of name() (strings of parsed formats taken from real samples) deserialize and "
                "re-serialize into the type; documented kind per keyword; inline() names none of the arguments; visit_generics reports exactly the user types among the arguments. "
                "distinct_nontrivial = table entries with >= 1 oracle evaluation")
    chk.assumptions = ["serde's `rc` feature is enabled in the harness so Rc/Arc/Weak serialize", "arrays longer than 32 have no serde impl: name only"]
    try:
        binp = build_fixed(())
        res = run_sharded(binp, "C12", seed, tier, 1, "c12")
        runs_ok(chk, res, "C12")
        for r in res:
            for e in r["events"]:
                if e.get("ev") != "lib":
                    continue
                chk.add_eval(e["checked"])
                if e["checked"] > 0:
                    chk.add_distinct(e["rust"])
                chk.hist("families", e["family"])
                chk.hist("totals", "values", e["samples"])
                chk.hist("totals", "witnesses", e["witnesses"])
                if e["family"] in ("compose", "map", "chrono") and e.get("example") is not None:
                    chk.sample({"rust": e["rust"], "ts": e["name"], "value": e["example"]}, limit=6)
                for f in e["fails"]:
                    if f["kind"].startswith("harness"):
                        chk.note_inconclusive(f"{e['rust']}: {f['reason']}")
                        continue
                    key = f"C12|{f['kind']}|{e['rust']}"
                    chk.violation(key, f"{e['rust']} (declared {e['name']}): {f['kind']}: {f.get('reason')} "
                                       f"{str(f.get('value', f.get('witness', '')))[:120]}",
                                  {"rust": e["rust"], "name": e["name"], "fail": f}, tags=[e["rust"], e["family"], f["kind"]])
    finally:
        cleanup_scratch()
    return chk.finish(min_evaluations=500, min_distinct=100)
