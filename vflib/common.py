"""Shared plumbing for the checks: paths, cargo, event logs, verdicts, evidence, known findings."""
import json
import os
import shutil
import subprocess
import sys
import time
from concurrent.futures import ThreadPoolExecutor

VERIF = os.path.dirname(os.path.dirname(os.path.abspath(__file__)))
REPO = os.environ.get("VERIF_REPO", "/repo")
HARNESS = os.path.join(VERIF, "harness")
GEN_DIR = os.path.join(HARNESS, "gen")
WORK = os.path.join(VERIF, "work")
TARGET = os.path.join(WORK, "target")
EVIDENCE = os.path.join(VERIF, "evidence")
REPLAYS = os.path.join(VERIF, "replays")
KNOWN = os.path.join(VERIF, "known_findings.json")
NCPU = os.cpu_count() or 4


class Inconclusive(Exception):
    pass


def env_base():
    e = dict(os.environ)
    e["CARGO_NET_OFFLINE"] = "true"
    e["CARGO_TARGET_DIR"] = TARGET
    e["TS_RS_VERIF_DIR"] = VERIF
    e.setdefault("CARGO_TERM_COLOR", "never")
    e.pop("TS_RS_EXPORT_DIR", None)
    e.pop("RUSTFLAGS", None)
    return e


def ensure_dirs():
    for d in (WORK, EVIDENCE, REPLAYS, GEN_DIR):
        os.makedirs(d, exist_ok=True)
    lock = os.path.join(HARNESS, "Cargo.lock")
    if not os.path.exists(lock):
        shutil.copy(os.path.join(REPO, "Cargo.lock"), lock)


def sh(cmd, cwd=None, env=None, timeout=None, check=False, capture=True):
    p = subprocess.run(cmd, cwd=cwd, env=env or env_base(), timeout=timeout,
                       stdout=subprocess.PIPE if capture else None,
                       stderr=subprocess.STDOUT if capture else None, text=True)
    if check and p.returncode != 0:
        raise Inconclusive(f"command failed ({p.returncode}): {' '.join(cmd)}\n{(p.stdout or '')[-4000:]}")
    return p


# -------------------------------------------------------------------------------------------
# corpus crates

def write_crate(name, source, extra_deps=""):
    d = os.path.join(GEN_DIR, name)
    os.makedirs(os.path.join(d, "src"), exist_ok=True)
    cargo = f"""[package]
name = "{name}"
version = "0.0.0"
edition = "2021"

[dependencies]
vsupport = {{ workspace = true }}
serde = {{ workspace = true }}
serde_json = {{ workspace = true }}
ts-rs = {{ workspace = true }}
{extra_deps}
"""
    _write_if_changed(os.path.join(d, "Cargo.toml"), cargo)
    _write_if_changed(os.path.join(d, "src", "main.rs"), source)
    return d


def _write_if_changed(path, text):
    try:
        if open(path).read() == text:
            return
    except OSError:
        pass
    with open(path, "w") as f:
        f.write(text)


def remove_crates(prefix):
    if not os.path.isdir(GEN_DIR):
        return
    for n in os.listdir(GEN_DIR):
        if n.startswith(prefix) and os.path.isdir(os.path.join(GEN_DIR, n)):
            shutil.rmtree(os.path.join(GEN_DIR, n), ignore_errors=True)


def cargo_build(packages, features=(), json_diag=False, timeout=3000):
    cmd = ["cargo", "build", "--offline"]
    for p in packages:
        cmd += ["-p", p]
    if features:
        cmd += ["--features", ",".join(features)]
    if json_diag:
        cmd += ["--message-format=json"]
    return sh(cmd, cwd=HARNESS, timeout=timeout)


def bin_path(name):
    return os.path.join(TARGET, "debug", name)


def rustc_errors(stdout):
    """Parse cargo --message-format=json output: list of (package, file, line, message, in_expansion_of)."""
    errs = []
    for line in stdout.splitlines():
        if not line.startswith("{"):
            continue
        try:
            m = json.loads(line)
        except ValueError:
            continue
        if m.get("reason") != "compiler-message":
            continue
        msg = m["message"]
        if msg.get("level") != "error":
            continue
        pkg = m.get("target", {}).get("name", "")
        spans = msg.get("spans") or []
        prim = [s for s in spans if s.get("is_primary")] or spans
        line_no, fname, exp = None, None, None
        for s in prim:
            fname = s.get("file_name")
            line_no = s.get("line_start")
            e = s.get("expansion")
            if e:
                exp = e.get("macro_decl_name")
                # the span inside the user's file
                while e and e.get("span") and e["span"].get("expansion"):
                    e = e["span"]["expansion"]
                if e and e.get("span"):
                    fname = e["span"].get("file_name", fname)
                    line_no = e["span"].get("line_start", line_no)
            break
        errs.append({"package": pkg, "file": fname, "line": line_no, "message": msg.get("message", ""), "code": (msg.get("code") or {}).get("code"),
                     "expansion": exp, "rendered": (msg.get("rendered") or "")[:1500]})
    return errs


def run_bins(jobs, timeout=3000):
    """jobs: list of (bin, args, out_path). Runs them in parallel, returns list of event lists."""
    def one(job):
        binp, args, out = job
        cmd = [binp] + args + ["--out", out]
        try:
            p = subprocess.run(cmd, env=env_base(), stdout=subprocess.PIPE, stderr=subprocess.STDOUT,
                               text=True, timeout=timeout, cwd=os.path.dirname(out))
        except subprocess.TimeoutExpired:
            return {"bin": binp, "rc": "timeout", "output": "", "events": read_events(out)}
        return {"bin": binp, "rc": p.returncode, "output": (p.stdout or "")[-3000:], "events": read_events(out)}
    with ThreadPoolExecutor(max_workers=NCPU) as ex:
        return list(ex.map(one, jobs))


def read_events(path):
    out = []
    try:
        with open(path) as f:
            for line in f:
                line = line.strip()
                if line:
                    try:
                        out.append(json.loads(line))
                    except ValueError:
                        out.append({"ev": "corrupt-line", "text": line[:200]})
    except OSError:
        pass
    return out


# -------------------------------------------------------------------------------------------
# findings / verdict

def load_known():
    try:
        with open(KNOWN) as f:
            return json.load(f).get("findings", [])
    except OSError:
        return []


class Check:
    """Collects what one check run observed and turns it into exit code, stdout lines, evidence."""

    def __init__(self, pid, tier, seed, level="exploration"):
        self.pid = pid
        self.tier = tier
        self.seed = seed
        self.level = level
        self.t0 = time.time()
        self.evaluations = 0
        self.distinct = set()
        self.samples = []
        self.violations = []      # dict(key, what, witness)
        self.inconclusive = []    # reasons
        self.coverage_extra = {}
        self.assumptions = []
        self.rule = ""
        self.known = [k for k in load_known() if pid == k.get("property") or pid in (k.get("properties") or [])]
        self.known_hit = {}

    def add_eval(self, n=1):
        self.evaluations += n

    def add_distinct(self, key):
        self.distinct.add(key)

    def sample(self, s, limit=8):
        if len(self.samples) < limit:
            self.samples.append(s)

    def violation(self, key, what, witness, tags=None):
        self.violations.append({"key": key, "what": what, "witness": witness, "tags": sorted(tags or [])})

    def note_inconclusive(self, reason):
        self.inconclusive.append(reason)

    def hist(self, name, key, n=1):
        h = self.coverage_extra.setdefault(name, {})
        h[key] = h.get(key, 0) + n

    def finish(self, min_evaluations=1, min_distinct=2):
        wall = time.time() - self.t0
        new = []
        for v in self.violations:
            matched = None
            for k in self.known:
                if k.get("status") == "known" and finding_matches(k, v):
                    matched = k
                    break
            if matched is not None:
                e = self.known_hit.setdefault(matched["id"], {"entry": matched, "count": 0, "example": v})
                e["count"] += 1
            else:
                new.append(v)
        lines = []
        for kid, e in sorted(self.known_hit.items()):
            lines.append(f"KNOWN-FINDING: property={self.pid} {e['entry']['what']} [{kid}; seen {e['count']}x this run]")
        replay = None
        if new:
            os.makedirs(REPLAYS, exist_ok=True)
            replay = os.path.join(REPLAYS, f"{self.pid}-{self.tier}-{self.seed}.json")
            by_key = {}
            for v in new:
                by_key.setdefault(v["key"], []).append(v)
            with open(replay, "w") as f:
                json.dump({"property": self.pid, "tier": self.tier, "seed": self.seed,
                           "violations": [{"key": k, "count": len(vs), "first": vs[0]} for k, vs in sorted(by_key.items())]},
                          f, indent=1, default=str)
            for k, vs in sorted(by_key.items())[:12]:
                lines.append(f"  violation key={k} x{len(vs)}: {vs[0]['what'][:300]}")
            lines.append(f"VIOLATION property={self.pid} replay={replay}")
        observed_enough = self.evaluations >= min_evaluations and len(self.distinct) >= min_distinct
        if not new and (self.inconclusive or not observed_enough):
            why = "; ".join(self.inconclusive[:5]) or \
                f"observed too little (evaluations={self.evaluations}, distinct={len(self.distinct)})"
            lines.append(f"INCONCLUSIVE property={self.pid} reason={why}")
        cov = {
            "evaluations": int(self.evaluations),
            "distinct_nontrivial": len(self.distinct),
            "rule": self.rule,
            "samples": self.samples,
            "known_findings_hit": {k: e["count"] for k, e in self.known_hit.items()},
            "inconclusive": self.inconclusive[:20],
        }
        cov.update(self.coverage_extra)
        ev = {
            "property_id": self.pid, "tier": self.tier, "seed": int(self.seed), "level": self.level,
            "coverage": cov, "assumptions": self.assumptions, "wall_s": round(wall, 2),
            "violations": len(new),
        }
        os.makedirs(EVIDENCE, exist_ok=True)
        with open(os.path.join(EVIDENCE, f"{self.pid}.json"), "w") as f:
            json.dump(ev, f, indent=1, default=str)
        for l in lines:
            print(l)
        verdict = "violated" if new else ("inconclusive" if (self.inconclusive or not observed_enough) else "held")
        print(f"{self.pid} [{self.tier}, seed {self.seed}]: {verdict}; evaluations={self.evaluations} "
              f"distinct={len(self.distinct)} known={sum(e['count'] for e in self.known_hit.values())} wall={wall:.1f}s")
        sys.stdout.flush()
        if new:
            return 1
        if self.inconclusive or not observed_enough:
            return 2
        return 0


def finding_matches(entry, violation):
    """A known finding matches a violation when every clause of its `match` holds:
    key (exact), key_regex, tags_all (all present among the violation's tags)."""
    import re
    m = entry.get("match") or {}
    if not m:
        return False
    if "key" in m and m["key"] != violation["key"]:
        return False
    if "key_regex" in m and not re.search(m["key_regex"], violation["key"]):
        return False
    tags = set(violation.get("tags") or [])
    if "tags_all" in m and not set(m["tags_all"]) <= tags:
        return False
    if "tags_any" in m and not (set(m["tags_any"]) & tags):
        return False
    return True
