"""C13: bindings are a deterministic function of the source and configuration."""
import tsgen

from . import common as C
from . import inproc
from .corpus import Corpus, check_runs
from .fixedchk import cleanup_scratch


# types whose declaration depends on a const parameter, each instantiated several times in one process
CONST_GENERIC_SRC = """
#[derive(TS)] pub struct CgMatrix<T, const N: usize> { pub rows: [T; N], pub label: String }
#[derive(TS)] pub struct CgBuf<const N: usize, const M: usize = 2> { pub a: [u8; N], pub b: [Option<i16>; M] }
#[derive(TS)] pub enum CgChoice<const N: usize> { Flags([bool; N]), Named { names: [String; N] }, Nothing }
pub mod cg_a { use ts_rs::TS; #[derive(TS)] #[ts(export_to = "cg_a/")] pub struct CgSame { pub a: i32 } }
pub mod cg_b { use ts_rs::TS; #[derive(TS)] #[ts(export_to = "cg_b/")] pub struct CgSame { pub b: String } }
#[derive(TS)] pub struct CgBothA { pub x: cg_a::CgSame, pub y: cg_b::CgSame }
#[derive(TS)] pub struct CgBothB { pub y: cg_b::CgSame, pub x: cg_a::CgSame, pub z: Vec<cg_a::CgSame> }
#[derive(TS)] pub struct CgBothC { pub p: Option<cg_b::CgSame>, pub q: Box<cg_a::CgSame>, pub r: (cg_a::CgSame, cg_b::CgSame) }
#[derive(TS)] #[ts(export_to = "cg_geo.ts")] pub struct CgPoint<T> { pub x: T, pub y: T }
#[derive(TS)] #[ts(export_to = "cg_geo.ts")] pub struct CgPoint2 { pub x: f32, pub y: f32 }
#[derive(TS)] #[ts(export_to = "cg_geo.ts")] pub struct CgPoint3 { pub x: f32, pub y: f32, pub z: f32 }
#[derive(TS)] #[ts(export_to = "cg_geo.ts")] pub struct CgAnchor { pub id: u8 }
#[derive(TS)] #[ts(export_to = "cg_sp/types.ts")] pub struct CgSpellA { pub a: i32 }
#[derive(TS)] #[ts(export_to = "cg_sp/gen/../types.ts")] pub struct CgSpellB { pub b: CgAnchor }
#[derive(TS)] #[ts(export_to = "./cg_sp/./x/y/../../types.ts")] pub struct CgSpellC { pub c: Vec<CgSpellA> }
#[derive(TS)] pub struct CgSpellAll { pub a: CgSpellA, pub b: CgSpellB, pub c: CgSpellC }
#[derive(TS)] #[ts(concrete(C = i32))] pub struct CgFive<A, B, C, D, E> { pub a: A, pub b: Vec<B>, pub c: C, pub d: Option<D>, pub e: E }
#[derive(TS)] #[ts(concrete(X = String, Z = bool))] pub enum CgSix<U, V, W, X, Y, Z> { One(U, V), Two { w: W, x: X }, Three(Y, Z) }
#[derive(TS)] pub struct CgFiveUser { pub five: CgFive<u8, String, i32, bool, CgAnchor>, pub six: CgSix<u8, u16, CgAnchor, String, Vec<u8>, bool> }
#[derive(TS)] pub struct CgHolder { pub two: CgMatrix<i32, 2>, pub three: CgMatrix<i32, 3>, pub buf: CgBuf<1>, #[ts(inline)] pub choice: CgChoice<2> }
"""
CONST_GENERIC_ENTRIES = [("Cg:matrix2", "CgMatrix<i32, 2>"), ("Cg:matrix3", "CgMatrix<i32, 3>"), ("Cg:matrix0", "CgMatrix<String, 0>"),
                         ("Cg:buf1", "CgBuf<1>"), ("Cg:buf34", "CgBuf<3, 4>"), ("Cg:choice1", "CgChoice<1>"), ("Cg:choice2", "CgChoice<2>"),
                         ("Cg:holder", "CgHolder"), ("Cg:point", "CgPoint<i32>"), ("Cg:point2", "CgPoint2"), ("Cg:point3", "CgPoint3"), ("Cg:anchor", "CgAnchor"),
                         ("Cg:spellA", "CgSpellA"), ("Cg:spellB", "CgSpellB"), ("Cg:spellC", "CgSpellC"), ("Cg:spellAll", "CgSpellAll"),
                         ("Cg:five", "CgFive<u8, String, i32, bool, CgAnchor>"), ("Cg:six", "CgSix<u8, u16, CgAnchor, String, Vec<u8>, bool>"), ("Cg:fiveUser", "CgFiveUser"),
                         ("Cg:bothA", "CgBothA"), ("Cg:bothB", "CgBothB"), ("Cg:bothC", "CgBothC"),
                         # renders that fail (nothing to export): what such a call leaves behind must not reach the next one
                         ("nx:vec", "Vec<CgHolder>"), ("nx:opt", "Option<CgBuf<1>>"), ("nx:prim", "i32"), ("nx:tuple", "(CgHolder, String)")]


def crate_neutral(v):
    """error texts carry std::any::type_name, which starts with the name of the package (det_0, det_1, ..)"""
    import json
    import re
    return re.sub(r"\bdet_\d+::", "det::", json.dumps(v, sort_keys=True))


def run(pid, tier, seed):
    chk = C.Check(pid, tier, seed)
    k = 3 if tier == "quick" else 6
    nsrc = 2 if tier == "quick" else 4
    per = 70 if tier == "quick" else 200
    chk.rule = (f"{nsrc} generated sources (graph profile biased to many dependencies: structs referring to 5..9 earlier items, shared files, "
                f"cycles) each emitted as {k} identically-sourced packages, so every package is expanded by its own rustc/proc-macro process "
                "(fresh hash seeds); the sources include types whose declaration depends on a const parameter, instantiated several times; every "
                "binary dumps decl/name/inline/decl_concrete/export_to_string/dependencies-as-set of every type, each package asking in its own "
                "shuffled order (what is asked first must not matter), and "
                "exports all types through export_all() with 1, 4 and 16 threads in seeded shuffled orders, twice; then fixed subsets through export() "
                "(alone) and export_all() mixed in shuffled orders on 1, 4 and 16 threads, twice each, for four choices of the subsets. Oracle: all dumps and all "
                "exported files (compared path by path) are byte-identical across packages, repetitions, thread counts and orders. In-process: every item is expanded "
                "20x and the number of distinct raw token orders is recorded (evidence that hash order really varies). distinct_nontrivial "
                "= types with >= 3 dependencies whose dumps were compared across packages")
    chk.assumptions = ["separate packages = separate rustc invocations = fresh RandomState for the macro's HashSets"]
    try:
        gens = []
        sources = []
        for sidx in range(nsrc):
            prof = tsgen.Profile(max_depth=2, placements=True, ts_only=True, p_attr=0.25, wide=0.25)
            for j in range(k):
                g = tsgen.Gen(seed * 1000 + 900 + sidx, "D" + chr(ord("a") + sidx), prof)
                for _ in range(per):
                    g.item()
                g.make_entries(per_generic=2)
                gens.append(g)
            sources.append(gens[-1])
        corpus = Corpus("det", gens, entry_ctor="ts", extra_src=CONST_GENERIC_SRC, extra_entries=CONST_GENERIC_ENTRIES)
        corpus.build()
        for sidx in range(nsrc):
            sets = [sorted(corpus.dropped.get(f"det_{sidx * k + j}", {})) for j in range(k)]
            if any(s != sets[0] for s in sets):
                chk.note_inconclusive(f"rustc rejected different items in the packages of source {sidx}: {sets}")
        chk.coverage_extra["dropped_by_rustc"] = {n: len(v) for n, v in corpus.dropped.items()}
        results = corpus.run("C13", seed, tier)
        check_runs(chk, results, "C13")
        # group the K packages of each source
        for sidx in range(nsrc):
            group = results[sidx * k:(sidx + 1) * k]
            dumps = []
            trees = []
            for r in group:
                d = {e["id"]: e for e in r["events"] if e.get("ev") == "dump"}
                dumps.append(d)
                trees.append([e for e in r["events"] if e.get("ev") == "tree"])
                for e in r["events"]:
                    if e.get("ev") == "tree-summary":
                        chk.hist("export_trees", "files", e["files"])
                        chk.hist("export_trees", "files_with_several_types", e["files_with_several_types"])
                        chk.hist("export_trees", "files_with_3plus_import_lines", e["files_with_3plus_import_lines"])
                        if len(chk.samples) < 2:
                            some = list(e["tree"].items())[:2]
                            chk.sample({"package_group": sidx, "tree_digest": e["digest"], "files": [p for p, _ in some],
                                        "first_file": some[0][1][:600] if some else None})
            base = dumps[0]
            for pi, d in enumerate(dumps[1:], start=1):
                for tid, e0 in base.items():
                    e1 = d.get(tid)
                    chk.add_eval()
                    if e1 is None:
                        chk.note_inconclusive(f"type {tid} missing in package {pi} of source {sidx}")
                        continue
                    deps = e0.get("dependencies", {}).get("Ok") or []
                    if len(deps) >= 3:
                        chk.add_distinct((sidx, tid))
                    for field in ("name", "ident", "decl", "decl_concrete", "inline", "export_to_string", "dependencies", "output_path", "docs"):
                        if crate_neutral(e0.get(field)) != crate_neutral(e1.get(field)):
                            chk.violation(f"C13|dump-differs|{field}", f"{e0['rust']}: {field} differs between two compilations of the same source: "
                                          f"{str(e0.get(field))[:300]} vs {str(e1.get(field))[:300]}",
                                          {"type": e0["rust"], "field": field, "a": e0.get(field), "b": e1.get(field)}, tags=[field])
            digests = set()
            for pi, ts in enumerate(trees):
                for t in ts:
                    chk.add_eval()
                    if t.get("phase", "all") == "all":
                        digests.add(t["digest"])
                    if t["n_errors"]:
                        chk.violation("C13|export-error", f"export failed with {t['threads']} threads: {t['errors'][:2]}", t, tags=["export-error"])
            # file by file over every run of every package of this source: one content per path
            # (phase "all": every type through export_all; phase "mixed": fixed subsets through export / export_all)
            file_diff_found = False
            for phase in ("all", "mixed0", "mixed1", "mixed2", "mixed3"):
                per_path = {}
                n_runs = 0
                for pi, ts in enumerate(trees):
                    for t in ts:
                        if t.get("phase", "all") != phase:
                            continue
                        n_runs += 1
                        for path, dg in t["file_digests"].items():
                            per_path.setdefault(path, {}).setdefault(dg, []).append((pi, t["threads"], t["rep"]))
                chk.hist("runs", f"export_runs_compared_{phase}", n_runs)
                for path, by in sorted(per_path.items()):
                    present = sum(len(v) for v in by.values())
                    if len(by) > 1 or present != n_runs:
                        file_diff_found = True
                        example = next((x for ts in trees for t in ts for x in t["differing"] if x["path"] == path), None)
                        chk.violation(f"C13|file-differs|{path}" + ("" if phase == "all" else "|mixed-entry-points"),
                                      f"source {sidx} [{phase}]: {path} has {len(by)} different contents over {n_runs} export runs "
                                      f"(packages x thread counts x orders){'' if present == n_runs else f', and exists in only {present} of them'}"
                                      + (f": {str(example)[:400]}" if example else ""),
                                      {"path": path, "phase": phase, "contents": {k: v[:6] for k, v in by.items()}, "example": example},
                                      tags=["tree-differs", phase])
            if len({t["digest"] for ts in trees for t in ts if t.get("phase", "all") == "all"}) > 1 and not file_diff_found:
                chk.violation("C13|tree-differs-across-packages", f"source {sidx}: export trees differ between compilations/runs: {sorted(digests)}",
                              {"digests": sorted(digests)}, tags=["tree-differs"])
            chk.hist("runs", "export_runs_compared", sum(len(t) for t in trees))
        # in-process: hash order really varies between expansions
        exe = inproc.build(("serde-compat",))
        lines = []
        for g in sources:
            for it in g.items:
                lines.append((it.id, tsgen.emit_item(it)))
        evs, ok, outp = inproc.run_jobs_parallel(exe, "c13", {"mode": "expand", "repeat": "20", "canon": "1"}, lines)
        varied = sum(1 for e in evs if e.get("ev") == "item" and e.get("raw_variants", 1) > 1)
        canon_varied = [e for e in evs if e.get("ev") == "item" and e.get("canon_variants", 1) > 1]
        total = sum(1 for e in evs if e.get("ev") == "item")
        chk.coverage_extra["in_process"] = {"items": total, "items_with_more_than_one_raw_token_order_in_20_expansions": varied,
                                            "items_whose_canonical_expansion_varied": len(canon_varied)}
        if total and varied < 2:
            chk.note_inconclusive("no item showed more than one raw token order in 20 expansions: the comparison would have no power")
    except C.Inconclusive as e:
        chk.note_inconclusive(str(e)[:1200])
    finally:
        cleanup_scratch()
    return chk.finish(min_evaluations=300, min_distinct=20)
