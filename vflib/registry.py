from . import sem

CHECKS = {
    "C01": sem.run,
    "C02": sem.run,
}
