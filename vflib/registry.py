from . import c07, c09, c10, c13, c14, c16, fixedchk, graph, sem, text

CHECKS = {
    "C01": sem.run,
    "C02": sem.run,
    "C03": graph.c03,
    "C04": text.c04,
    "C05": fixedchk.c05,
    "C06": fixedchk.c06,
    "C07": c07.run,
    "C08": fixedchk.c08,
    "C09": c09.run,
    "C10": c10.run,
    "C11": graph.c11,
    "C12": fixedchk.c12,
    "C13": c13.run,
    "C14": c14.run,
    "C15": text.c15,
    "C16": c16.run,
    "C17": fixedchk.c17,
}
