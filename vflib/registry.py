from . import fixedchk, sem

CHECKS = {
    "C01": sem.run,
    "C02": sem.run,
    "C05": fixedchk.c05,
    "C06": fixedchk.c06,
    "C08": fixedchk.c08,
    "C17": fixedchk.c17,
}
