"""C14: inline, flatten and `as` change presentation, never meaning."""
import json
import os

import presgen
import tsgen

from . import common as C
from .corpus import check_runs
from .fixedchk import cleanup_scratch


def verdicts(eq):
    """yields (direction, counter-witness dict) for failed inclusions; counts inconclusive"""
    for d in ("a_in_b", "b_in_a"):
        v = eq.get(d)
        if isinstance(v, dict) and "counter_witness" in v:
            yield d, v


def run(pid, tier, seed):
    chk = C.Check(pid, tier, seed)
    ncr = 8 if tier == "quick" else 16
    pool = 14 if tier == "quick" else 90
    chk.rule = ("presentation groups (gen/presgen.py): for every non-recursive generated type F (structs, enums in every representation, "
                "instantiated generics) and containers of it (Option, Vec, HashMap value, Box, arrays of 0..3 and 63..65 elements), parents of four shapes (named struct, tagged struct whose only member is the field, "
                "newtype, struct variant) present one field of type F by name / #[ts(inline)] / #[ts(flatten)] (object-like F) / "
                "#[ts(as = \"F\")] on a field of another type / on a newtype or struct variant of an enum of every representation / container-level as; plus inlined-inside-flattened and vice versa. Oracle "
                "(tsmodel, bounded mutual inclusion of enumerated inhabitants): by-name ~ inline; flatten ~ `{ own } & (F)` built by the model; "
                "the `as` declaration is textually the twin's (also `as` + `inline` on a field or on the field of a newtype variant against the inlined twin); container-level as ~ F; for every exportable type inline() ~ name() resolved "
                "through the declarations. distinct_nontrivial = distinct (check, shape, kind of F, representation of F)")
    chk.assumptions = ["equivalence is bounded (witness depth 3, <= 80 per type)"]
    try:
        C.remove_crates("pres_")
        gens, names = [], []
        for i in range(ncr):
            pg = presgen.PresGen(seed * 1000 + 600 + i, "R" + chr(ord("a") + i), pool)
            pg.build()
            name = f"pres_{i}"
            C.write_crate(name, pg.source())
            gens.append(pg)
            names.append(name)
        p = C.cargo_build(names, json_diag=True)
        if p.returncode != 0:
            errs = C.rustc_errors(p.stdout)
            raise C.Inconclusive("presentation corpus does not build: " + (errs[0]["rendered"][:800] if errs else p.stdout[-800:]))
        outdir = os.path.join(C.WORK, "events", "pres")
        os.makedirs(outdir, exist_ok=True)
        jobs = []
        for n, pg in zip(names, gens):
            gfile = os.path.join(outdir, f"{n}.groups.json")
            json.dump(pg.groups, open(gfile, "w"))
            jobs.append((C.bin_path(n), ["--monitor", "C14", "--seed", str(seed), "--tier", tier, "--groups", gfile],
                         os.path.join(outdir, f"{n}.C14.jsonl")))
        results = C.run_bins(jobs)
        check_runs(chk, results, "C14")
        for pg, r in zip(gens, results):
            items = {it.id: it for it in pg.g.items}
            ginfo = {g["id"]: g for g in pg.groups}
            # entries of a group (parents, the field type itself) inherit the field type's items for known-finding tags:
            # `as = "F"` and container-level `as` carry F only as a string
            for eid, it, args in pg.g.entries:
                for a in args:
                    for u in a.users():
                        items.setdefault(eid + "@arg" + u.id, u)
            for g in pg.groups:
                tgt = items.get(g["target"])
                for mid in list(g["members"].values()) + ["F:" + g["id"]]:
                    if tgt is not None:
                        items.setdefault(mid + "@target", tgt)
            for ev in r["events"]:
                if ev.get("ev") == "self":
                    chk.add_eval()
                    if ev["outcome"] == "panic":
                        chk.violation("C14|self|panic", f"{ev['rust']}: inline()/name() panicked: {ev.get('inline')} {ev.get('name')}", ev, tags=["panic"])
                    elif ev["outcome"] == "unparseable":
                        ktags = ktags_of(items, ev["id"])
                        chk.violation(f"C14|self|unparseable|{ev['id'].split('#')[0]}", f"{ev['rust']}: inline() or name() does not parse: {ev['errors']}: {ev['inline'][:300]}",
                                      ev, tags=ktags + ["unparseable"])
                    else:
                        report_problems(chk, ev, items, ev["id"], "self")
                        for d, v in verdicts(ev["equiv"]):
                            chk.violation(f"C14|self|inline-vs-declaration|{d}", f"{ev['rust']}: {v['counter_witness']} separates inline() from the declaration "
                                          f"instantiated at its arguments ({v['reason']}): {ev['inline'][:200]} vs {ev['name'][:100]}", ev,
                                          tags=ktags_of(items, ev["id"]) + ["inline-vs-declaration"])
                elif ev.get("ev") == "group":
                    g = ginfo[ev["id"]]
                    target = items.get(g["target"])
                    rep = target.shape_tag() if target else "?"
                    ttags = [t for t in g["target_tags"] if t.startswith(("k:", "f:flatten", "f:inline", "enum-", "struct-", "v:untagged"))]
                    ktags = sorted({"dep:" + t for t in dep_ktags(target, items)}) if target else []
                    report_problems(chk, ev, items, g["target"], "group")
                    for cname, res in ev["checks"].items():
                        chk.add_eval()
                        chk.add_distinct((cname, g["shape"], g["kind"], rep))
                        chk.hist("checks", cname)
                        wit = {"group": g, "check": cname, "result": res, "texts": ev["texts"],
                               "source": tsgen.emit_item(target) if target else None}
                        if cname == "as=twin":
                            if not res["equal"]:
                                chk.violation(f"C14|as-differs-from-twin|{g['shape']}|{g['kind']}", f"as = \"{g['ftype']}\" gives `{res['as'][:200]}`, a field of "
                                              f"that type gives `{res['twin'][:200]}`", wit, tags=ttags + ktags + ["as"])
                            continue
                        if cname.endswith("=twin"):
                            role = cname.split("=")[0]
                            vrep = g.get("nv_rep") if role == "nv-as-inline" else g["shape"] if role == "as-inline" else g.get("variant_rep")
                            chk.add_distinct((cname, vrep, g["kind"]))
                            if not res["equal"]:
                                where = {"as-inline": f"an inlined field ({g['shape']})", "nv-as-inline": f"the inlined field of a newtype variant of a {vrep} enum"}.get(
                                    role, f"a variant of a {vrep} enum")
                                chk.violation(f"C14|{role}-differs-from-twin|{vrep}|{g['kind']}",
                                              f"#[ts(as = \"{g['ftype']}\")] on {where} gives `{res['as'][:200]}`, the same "
                                              f"holding that type gives `{res['twin'][:200]}`", wit, tags=ttags + ktags + ["as", "variant-as" if role.startswith("variant") else role])
                            continue
                        for d, v in verdicts(res):
                            chk.violation(f"C14|{cname}|{d}|{g['shape']}|{g['kind']}|{rep}",
                                          f"{cname} for field type {g['ftype']} ({g['shape']}): {v['counter_witness']} separates the two presentations "
                                          f"({v['reason']} at /{'/'.join(v['path'])})", wit, tags=ttags + ktags + [cname])
                        for d in ("a_in_b", "b_in_a"):
                            v = res.get(d)
                            if isinstance(v, dict) and "inconclusive" in v:
                                chk.hist("inconclusive_checks", v["inconclusive"][:40])
                    if len(chk.samples) < 4 and ev["checks"]:
                        chk.sample({"field_type": g["ftype"], "shape": g["shape"], "checks": list(ev["checks"].keys()),
                                    "by_name": (ev["texts"].get("name") or {}).get("decl"), "inline": (ev["texts"].get("inline") or {}).get("decl"),
                                    "flat": (ev["texts"].get("flat") or {}).get("decl")})
    except C.Inconclusive as e:
        chk.note_inconclusive(str(e)[:1200])
    finally:
        cleanup_scratch()
    return chk.finish(min_evaluations=200, min_distinct=20)


def dep_ktags(item, items=None):
    """`k:` tags of everything below `item`; parents of a presentation group also reach the group's field type
    (which `as = "F"` carries only as a string) through the `<id>@target` links in `items`"""
    seen, out, work = set(), set(), [item]
    while work:
        it = work.pop()
        if it is None or it.id in seen:
            continue
        seen.add(it.id)
        out |= {t for t in it.feature_tags() if t.startswith("k:")}
        work.extend(it.deps())
        if items is not None and (it.id + "@target") in items:
            work.append(items[it.id + "@target"])
    return out


def ktags_of(items, entry_id):
    out = set()
    for key in (entry_id.split("#")[0], entry_id + "@target", entry_id.split("#")[0] + "@target"):
        it = items.get(key)
        if it is not None:
            out |= {"dep:" + t for t in dep_ktags(it, items)}
    for key, it in list(items.items()):
        if key.startswith(entry_id + "@arg"):
            out |= {"dep:" + t for t in dep_ktags(it, items)}
    return sorted(out)


def report_problems(chk, ev, items, item_id, where):
    for pr in ev.get("problems", []):
        kind, detail = (pr["kind"], pr["detail"]) if isinstance(pr, dict) else (pr[0], pr[1])
        if kind.startswith("harness"):
            chk.note_inconclusive(f"{kind}: {detail[:200]}")
            continue
        chk.violation(f"C14|problem|{kind.split('|')[0]}|{item_id.split('#')[0]}", f"{where} {ev.get('rust') or ev.get('id')}: {kind}: {detail[:300]}", ev,
                      tags=ktags_of(items, item_id) + [kind.split("|")[0]])
