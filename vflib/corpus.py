"""Generated corpus: build crates from generator output, drop items rustc rejects, run monitors."""
import json
import os
import re
import sys

sys.path.insert(0, os.path.join(os.path.dirname(os.path.dirname(os.path.abspath(__file__))), "gen"))
import tsgen  # noqa: E402

from . import common as C  # noqa: E402


def crate_source(g, entry_ctor="serde", extra_src="", extra_entries=(), extra_serde_entries=()):
    """Like tsgen.emit_crate_source but with `// @item` markers so rustc errors map to items."""
    out = [tsgen.HEADER, tsgen.emit_aliases(g)]
    for it in g.items:
        out.append(f"// @item {it.id}")
        out.append(tsgen.emit_item(it))
        out.append("")
    out.append("// @item __registry")
    out.append("pub fn registry() -> Vec<TypeEntry> {\n    vec![")
    for eid, it, args in g.entries:
        rust = tsgen.entry_rust(it, args)
        ctor = entry_ctor if it.serde else "ts"
        out.append(f"        TypeEntry::{ctor}::<{rust}>({tsgen.rs_str(eid)}, {tsgen.rs_str(rust)}), // @entry {eid}")
    for eid, rust in extra_entries:
        out.append(f"        TypeEntry::ts::<{rust}>({tsgen.rs_str(eid)}, {tsgen.rs_str(rust)}), // @entry {eid}")
    for eid, rust in extra_serde_entries:
        out.append(f"        TypeEntry::serde::<{rust}>({tsgen.rs_str(eid)}, {tsgen.rs_str(rust)}), // @entry {eid}")
    out.append("    ]\n}\n")
    out.append(extra_src)
    out.append("fn main() {\n    vsupport::run(registry());\n}\n")
    return "\n".join(out)


def item_at_line(source_lines, line):
    for i in range(min(line, len(source_lines)) - 1, -1, -1):
        m = re.match(r"// @item (\S+)", source_lines[i])
        if m:
            if m.group(1) == "__registry":
                m2 = re.search(r"// @entry (\S+)", source_lines[line - 1]) if line - 1 < len(source_lines) else None
                return ("entry", m2.group(1)) if m2 else ("registry", None)
            return ("item", m.group(1))
    return (None, None)


def drop_items(g, bad_ids):
    """Remove items (and everything depending on them) from a generator result."""
    bad = set(bad_ids)
    changed = True
    while changed:
        changed = False
        for it in g.items:
            if it.id not in bad and any(d.id in bad for d in it.deps()):
                bad.add(it.id)
                changed = True
    g.items = [it for it in g.items if it.id not in bad]

    def entry_ok(e):
        eid, it, args = e
        if it.id in bad:
            return False
        for a in args:
            if any(u.id in bad for u in a.users()):
                return False
        return True
    g.entries = [e for e in g.entries if entry_ok(e)]
    return bad


class Corpus:
    def __init__(self, family, gens, entry_ctor="serde", features=(), extra_src="", extra_entries=(), extra_serde_entries=(), extra_last_only=False):
        self.family = family
        self.gens = gens            # list of tsgen.Gen (already generated)
        self.entry_ctor = entry_ctor
        self.features = tuple(features)
        self.extra_src = extra_src
        self.extra_entries = tuple(extra_entries)
        self.extra_serde_entries = tuple(extra_serde_entries)
        self.extra_last_only = extra_last_only      # hand-written source goes into the last crate only
        self.dropped = {}           # crate -> {item id: message}
        self.names = [f"{family}_{i}" for i in range(len(gens))]
        self.sources = {}

    def write(self):
        C.remove_crates(self.family + "_")
        for name, g in zip(self.names, self.gens):
            src = self.source_of(name, g)
            self.sources[name] = src
            C.write_crate(name, src)

    def source_of(self, name, g):
        if self.extra_last_only and name != self.names[-1]:
            return crate_source(g, self.entry_ctor)
        return crate_source(g, self.entry_ctor, self.extra_src, self.extra_entries, self.extra_serde_entries)

    def build(self, max_rounds=6):
        """Build all crates; items that rustc rejects are dropped (and reported) and the build retried."""
        C.ensure_dirs()
        self.write()
        derive_errors = []
        for rnd in range(max_rounds):
            p = C.cargo_build(self.names, features=self.features, json_diag=True)
            if p.returncode == 0:
                return derive_errors
            errs = C.rustc_errors(p.stdout)
            if not errs:
                raise C.Inconclusive("corpus build failed without compiler diagnostics:\n" + p.stdout[-3000:])
            progress = False
            for name, g in zip(self.names, self.gens):
                mine = [e for e in errs if e["package"] == name]
                if not mine:
                    continue
                lines = self.sources[name].splitlines()
                bad_items, bad_entries = {}, {}
                for e in mine:
                    kind, ident = item_at_line(lines, e["line"] or 0) if (e["file"] or "").endswith("main.rs") else (None, None)
                    if kind == "item":
                        bad_items.setdefault(ident, e)
                    elif kind == "entry":
                        bad_entries.setdefault(ident, e)
                    else:
                        raise C.Inconclusive(f"corpus build error not attributable to an item in {name}: {e['rendered']}")
                if bad_entries:
                    g.entries = [en for en in g.entries if en[0] not in bad_entries]
                    for k, e in bad_entries.items():
                        self.dropped.setdefault(name, {})[k] = e["message"]
                    progress = True
                if bad_items:
                    items_by_id = {it.id: it for it in g.items}
                    for k, e in bad_items.items():
                        derive_errors.append({"crate": name, "item": k, "message": e["message"], "code": e.get("code"), "expansion": e["expansion"],
                                              "source": tsgen.emit_item(items_by_id[k]) if k in items_by_id else None,
                                              "rendered": e["rendered"]})
                        self.dropped.setdefault(name, {})[k] = e["message"]
                    drop_items(g, bad_items.keys())
                    progress = True
                src = self.source_of(name, g)
                self.sources[name] = src
                C.write_crate(name, src)
            if not progress:
                break
        exc = C.Inconclusive("corpus does not build after dropping rejected items:\n" + p.stdout[-3000:])
        exc.derive_errors = derive_errors      # what was rejected so far is still worth reporting
        raise exc

    def run(self, monitor, seed, tier, extra_args=(), timeout=3000):
        outdir = os.path.join(C.WORK, "events", self.family)
        os.makedirs(outdir, exist_ok=True)
        jobs = []
        for name in self.names:
            scratch = os.path.join(C.WORK, "scratch", name)
            os.makedirs(scratch, exist_ok=True)
            out = os.path.join(outdir, f"{name}.{monitor}.jsonl")
            if os.path.exists(out):
                os.remove(out)
            jobs.append((C.bin_path(name),
                         ["--monitor", monitor, "--seed", str(seed), "--tier", tier, "--scratch", scratch] + list(extra_args),
                         out))
        return C.run_bins(jobs, timeout=timeout)

    def meta(self):
        m = {"items": {}, "entries": {}}
        for g in self.gens:
            mm = tsgen.metadata(g)
            m["items"].update(mm["items"])
            m["entries"].update(mm["entries"])
        return m


def check_runs(chk, results, monitor):
    """Every process must end with an `end` event and exit code 0. A process that died (signal, abort, stack overflow)
    while examining a type is a violation attributed to that type; anything else is inconclusive."""
    ok = True
    for r in results:
        ends = [e for e in r["events"] if e.get("ev") == "end"]
        if r["rc"] == 0 and ends and ends[-1].get("ok"):
            continue
        ok = False
        starts = [e for e in r["events"] if e.get("ev") == "start"]
        died = isinstance(r["rc"], int) and r["rc"] != 0 and not ends
        if died and starts:
            last = starts[-1]
            chk.violation(f"{chk.pid}|crash|{monitor}", f"{os.path.basename(r['bin'])} died (rc={r['rc']}) while examining {last.get('rust')} "
                          f"in monitor {monitor}: {r['output'][-300:]}", {"type": last, "rc": r["rc"], "output": r["output"][-1000:]}, tags=["crash"])
        else:
            detail = ends[-1].get("harness_panic") if ends else r["output"][-500:]
            chk.note_inconclusive(f"{os.path.basename(r['bin'])} {monitor}: rc={r['rc']} {detail}")
    return ok
