"""C10: serde and ts attribute spellings are equivalent; ts wins; unknown serde is inert."""
import random

import attrgen

from . import common as C
from . import inproc

CONFIGS = [("serde-compat",), ("serde-compat", "no-serde-warnings"), (), ("no-serde-warnings",)]


def run(pid, tier, seed):
    chk = C.Check(pid, tier, seed)
    n_groups = 1500 if tier == "quick" else 30000
    chk.rule = (f"{n_groups} variant groups (gen/attrgen.c10_groups): for every supported serde key at container/variant/field level "
                "{ts(X)} vs {serde(X)}; {ts(X)} vs {ts(X), serde(X')} in both orders; one list vs reversed vs split lists vs ts list; "
                "an unsupported serde key (bare word / key = value / call form, 24 kinds) inserted before, after, around and in lists of "
                "its own; each group alone or combined with another ts attribute (type, as, export, export_to, optional_fields, inline). Every member is expanded in-process by the real derive; canonicalised expansions (visit_dependencies "
                "statements and where-predicates sorted) must be equal within a group and never an error or panic. Four builds of the "
                "macro crate: serde-compat on/off x no-serde-warnings on/off; with serde-compat off every serde-only member must equal "
                "the attribute-free item. distinct_nontrivial = distinct (group kind, level, key, unknown key, configuration)")
    chk.assumptions = ["canonicalisation only reorders the two places whose order legitimately depends on HashSet iteration"]
    r = random.Random(seed)
    groups = attrgen.c10_groups(r, n_groups)
    lines = []
    for gi, g in enumerate(groups):
        for label, src in g["members"]:
            lines.append((f"{gi}|{label}", src))
        lines.append((f"{gi}|plain", g["plain"]))
    for feats in CONFIGS:
        cfg = "+".join(feats) or "no-features"
        exe = inproc.build(feats)
        evs, ok, outp = inproc.run_jobs_parallel(exe, "c10-" + ("-".join(feats) or "none"), {"mode": "expand", "canon": "1"}, lines)
        if not ok:
            chk.note_inconclusive(f"in-process run ({cfg}) did not finish: {outp[-400:]}")
        res = {}
        for e in evs:
            if e.get("ev") == "item":
                gi, label = e["id"].split("|", 1)
                res.setdefault(int(gi), {})[label] = e
        compat = "serde-compat" in feats
        for gi, g in enumerate(groups):
            got = res.get(gi)
            if not got or len(got) != len(g["members"]) + 1:
                chk.note_inconclusive(f"group {gi} incomplete in configuration {cfg}")
                continue
            chk.add_eval(len(got))
            chk.add_distinct((g["kind"], g["level"], g["key"], g.get("unknown"), g.get("context"), cfg))
            chk.hist("groups:" + cfg, g["kind"])
            base_tags = [g["kind"], g["level"], g["key"], cfg] + ([f"with:{g['context']}"] if g.get("context") else []) + ([g["unknown_class"], "unknown:" + g["unknown"].split("=")[0].split("(")[0].strip()]
                                                              if g.get("unknown") else [])
            srcs = dict(g["members"])
            srcs["plain"] = g["plain"]
            # never an error / panic because of serde attributes
            for label, e in got.items():
                if label == "plain" and (g.get("context") or "").startswith("#[serde(with"):
                    continue    # without the `skip` under test, `with` alone is rightly refused
                if e["outcome"] != "ok":
                    # ts-spelled members may legitimately be rejected? no: every member of a group is a valid combination
                    key = f"C10|{e['outcome']}|{g['kind']}|{g['level']}|{g['key']}|{g.get('unknown_class')}|{g.get('context')}|{cfg}"
                    chk.violation(key, f"[{cfg}] `{srcs[label]}` -> {e['outcome']}: {e['msg'][:200]}",
                                  {"source": srcs[label], "outcome": e["outcome"], "msg": e["msg"], "config": cfg}, tags=base_tags)
            oks = {l: e["canon"] for l, e in got.items() if e["outcome"] == "ok"}
            if compat:
                ref_label = g["members"][0][0]
                ref = oks.get(ref_label)
                for label, _src in g["members"][1:]:
                    if label in oks and ref is not None and oks[label] != ref:
                        key = f"C10|differs|{g['kind']}|{g['level']}|{g['key']}|{label}|{g.get('unknown_class')}|{g.get('context')}|{cfg}"
                        chk.violation(key, f"[{cfg}] `{srcs[label]}` expands differently from `{srcs[ref_label]}`",
                                      {"a": srcs[ref_label], "b": srcs[label], "expansion_a": ref[:3000], "expansion_b": oks[label][:3000],
                                       "config": cfg}, tags=base_tags + [label])
                # sanity of the experiment: the attribute does something (otherwise equality is vacuous)
                if ref is not None and oks.get("plain") == ref and g["key"] not in ("bound", "rename+default"):
                    chk.hist("vacuous_groups", f"{g['level']}:{g['key']}")
            else:
                # serde compatibility off: serde attributes have no effect at all
                plain = oks.get("plain")
                for label, src in g["members"]:
                    if "#[ts(" in src:
                        continue
                    if label in oks and plain is not None and oks[label] != plain:
                        key = f"C10|serde-has-effect-without-compat|{g['level']}|{g['key']}|{cfg}"
                        chk.violation(key, f"[{cfg}] `{src}` expands differently from the attribute-free item",
                                      {"source": src, "plain": g["plain"], "config": cfg}, tags=base_tags + [label])
        if feats == CONFIGS[0]:
            for g in groups[:2] + groups[-2:]:
                chk.sample({"kind": g["kind"], "level": g["level"], "key": g["key"], "members": [s for _l, s in g["members"]]})
    return chk.finish(min_evaluations=5000, min_distinct=100)
