"""Grammar-based items for the in-process macro monitors.

* C16: random items x random subsets of attribute keys at every level, with a prediction
  (MUST_ERR / no prediction) from the incompatibility table transcribed from the diagnostics
  of the pinned commit.
* C10: variant groups – spellings of the same attributes that must expand identically.
"""
import random

RULES = ["lowercase", "UPPERCASE", "camelCase", "snake_case", "PascalCase", "SCREAMING_SNAKE_CASE", "kebab-case",
         "SCREAMING-KEBAB-CASE"]

FIELD_TYPES = ["i32", "String", "Option<i32>", "Vec<u8>", "bool", "Option<String>", "(i32, String)", "[u8; 2]", "Box<i64>"]
IDENTS_F = ["a", "foo_bar", "r#type", "fooBar", "_x", "x_", "a__b", "f1", "é_t", "__"]
IDENTS_V = ["A", "FooBar", "r#Self_", "Foo_Bar", "lower", "_V", "V_", "Éa", "V1"]


class Item:
    """A generated item with its attribute sets, so that the table can be applied."""

    def __init__(self):
        self.kind = "struct"          # struct | enum
        self.shape = "named"          # struct: unit newtype tuple named ; enum: list of variants
        self.name = "S"
        self.generics = ""
        self.where = ""
        self.cattrs = []              # list of (spelling, key, text)
        self.fields = []              # struct fields: (name|None, type, [(spelling,key,text)])
        self.variants = []            # (name, vshape, [(spelling,key,text)], fields)
        self.param_used = []

    # ---- rendering -------------------------------------------------------------------------
    @staticmethod
    def _attrs(attrs, grouped=False):
        if not attrs:
            return ""
        if grouped:
            # unknown / malformed entries keep a list of their own: what they do to their neighbours is C10's subject
            by = {}
            solo = []
            for sp, k, t in attrs:
                if k.startswith("!"):
                    solo.append(f"#[{sp}({t})]")
                else:
                    by.setdefault(sp, []).append(t)
            return " ".join([f"#[{sp}({', '.join(ts)})]" for sp, ts in by.items()] + solo) + " "
        return " ".join(f"#[{sp}({t})]" for sp, _k, t in attrs) + " "

    def _fields(self, fields, shape):
        if shape == "unit":
            return ""
        if shape in ("newtype", "tuple"):
            return "(" + ", ".join(f"{self._attrs(a)}{t}" for _n, t, a in fields) + ")"
        return "{ " + " ".join(f"{self._attrs(a)}{n}: {t}," for n, t, a in fields) + " }"

    def render(self, grouped=False):
        head = self._attrs(self.cattrs, grouped)
        if self.kind == "struct":
            body = self._fields(self.fields, self.shape)
            semi = ";" if self.shape in ("unit", "newtype", "tuple") else ""
            if self.shape in ("unit", "newtype", "tuple"):
                return f"{head}struct {self.name}{self.generics}{body}{self.where}{semi}"
            return f"{head}struct {self.name}{self.generics}{self.where} {body}"
        vs = []
        for n, vshape, attrs, fields in self.variants:
            vs.append(f"{self._attrs(attrs)}{n}{self._fields(fields, vshape) if vshape != 'unit' else ''},")
        return f"{head}enum {self.name}{self.generics}{self.where} {{ {' '.join(vs)} }}"


def q(s):
    return '"' + s.replace("\\", "\\\\").replace('"', '\\"') + '"'


# -------------------------------------------------------------------------------------------
# attribute vocabularies: key -> generator of attribute text (valid), plus invalid forms

def struct_keys(r, named):
    return {
        # (`_` stands for the type of the field an `as` is written on; a container has none)
        "as": lambda: r.choice(['as = "Vec<i32>"', 'as = "Vec<i32>"', 'as = "_"', 'as = "Option<_>"']),
        "type": lambda: 'type = "string"',
        "rename": lambda: f'rename = {q(r.choice(["Ren", "R2", "with space", "a-b"]))}',
        "rename_all": lambda: f'rename_all = "{r.choice(RULES)}"',
        "tag": lambda: f'tag = {q(r.choice(["t", "type", "kind"]))}',
        "export": lambda: "export",
        # (the documentation: "accepts arbitrary expressions")
        "export_to": lambda: r.choice([f'export_to = {q(r.choice(["x/", "x/y.ts", "../z/"]))}', 'export_to = concat!("x/", "c.ts")',
                                       'export_to = String::from("x/") + "plus/"', 'export_to = *&"x/deref.ts"',
                                       'export_to = { let dir = "x/blk/"; dir }', 'export_to = "x/cast.ts" as &str',
                                       'export_to = if true { "x/if/" } else { "x/else/" }']),
        "bound": lambda: 'bound = ""',
        "optional_fields": lambda: r.choice(["optional_fields", "optional_fields = nullable"]),
    }


def enum_keys(r):
    return {
        "as": lambda: r.choice(['as = "Vec<i32>"', 'as = "Vec<i32>"', 'as = "_"']),
        "type": lambda: 'type = "string"',
        "rename": lambda: f'rename = {q(r.choice(["Ren", "R2"]))}',
        "rename_all": lambda: f'rename_all = "{r.choice(RULES)}"',
        "rename_all_fields": lambda: f'rename_all_fields = "{r.choice(RULES)}"',
        "tag": lambda: f'tag = {q(r.choice(["t", "type"]))}',
        "content": lambda: f'content = {q(r.choice(["c", "data"]))}',
        "untagged": lambda: "untagged",
        "export": lambda: "export",
        "export_to": lambda: 'export_to = "e/"',
        "bound": lambda: 'bound = ""',
    }


def variant_keys(r):
    return {
        "as": lambda: 'as = "i64"',
        "type": lambda: 'type = "null"',
        "rename": lambda: f'rename = {q(r.choice(["vren", "v-2"]))}',
        "rename_all": lambda: f'rename_all = "{r.choice(RULES)}"',
        "inline": lambda: "inline",
        "skip": lambda: "skip",
        "untagged": lambda: "untagged",
    }


def field_keys(r, ty):
    return {
        "as": lambda: f'as = {q(r.choice(["i64", "Option<_>", "String"]))}',
        "type": lambda: 'type = "unknown"',
        "rename": lambda: f'rename = {q(r.choice(["fren", "f-2", "3d"]))}',
        "inline": lambda: "inline",
        "skip": lambda: "skip",
        "optional": lambda: r.choice(["optional", "optional = nullable"]),
        "flatten": lambda: "flatten",
    }


SERDE_OK = {
    "struct": ["rename", "rename_all", "tag", "bound"],
    "enum": ["rename", "rename_all", "rename_all_fields", "tag", "content", "untagged", "bound"],
    "variant": ["rename", "rename_all", "skip", "untagged"],
    "field": ["rename", "skip", "flatten"],
}

INVALID = {
    "rename_all": ['rename_all = "bogusCase"', "rename_all = 5", "rename_all"],
    "tag": ["tag = 5", "tag"],
    "optional": ["optional = foo"],
    "optional_fields": ["optional_fields = nope"],
    "as": ['as = "not a type ("', "as = 3"],
    "type": ["type = 7"],
    "unknown": ["frobnicate", 'colour = "red"', "skip_serializing", 'alias = "x"'],
    "bound": ["bound = 1"],
    "concrete": ["concrete(T)", "concrete = 3"],
}

UNKNOWN_SERDE = [
    'skip_serializing_if = "Option::is_none"', "skip_serializing", "skip_deserializing", 'alias = "al"', "other",
    "transparent", 'rename(serialize = "ser", deserialize = "de")', 'bound(serialize = "T: Clone")', 'default = "some::path"',
    'with = "module"', 'serialize_with = "f"', 'deserialize_with = "g"', "borrow", 'getter = "g"', 'from = "Other"',
    'try_from = "Other"', 'into = "Other"', 'remote = "Other"', 'expecting = "text"', 'crate = "serde"', "deny_unknown_fields",
    "variant_identifier", "field_identifier", 'rename_all(serialize = "camelCase")',
    # long values outside of ASCII (what the warning about an unsupported key prints)
    'expecting = "' + "\u00e4" * 60 + '"', 'expecting = "x' + "\u00e4" * 60 + '"', 'alias = "' + "\u65e5\u672c\u8a9e" * 30 + '"',
    'alias = "ab' + "\u65e5\u672c\u8a9e" * 30 + '"', 'alias = "a' + "\u65e5\u672c\u8a9e" * 30 + '"',
]


# -------------------------------------------------------------------------------------------
# C16

def gen_c16_item(r: random.Random, idx: int):
    it = Item()
    it.name = r.choice(["S", "My_Type", "r#Move", "Ünï", "T1"]) + str(idx)
    must_err = []       # reasons
    parse_invalid = False

    def pick(vocab, level, allow_serde=True, p_invalid=0.12, kmax=3):
        nonlocal parse_invalid
        attrs = []
        keys = list(vocab)
        for _ in range(r.choice([0, 0, 1, 1, 2, kmax])):
            k = r.choice(keys)
            if r.random() < p_invalid:
                bad_key = r.choice(list(INVALID))
                text = r.choice(INVALID[bad_key])
                attrs.append(("ts", "!invalid", text))
                parse_invalid = True
                continue
            sp = "serde" if allow_serde and k in SERDE_OK[level] and r.random() < 0.4 else "ts"
            attrs.append((sp, k, vocab[k]()))
        if r.random() < 0.15:
            attrs.insert(r.randrange(len(attrs) + 1), ("serde", "!unknown", r.choice(UNKNOWN_SERDE)))
        return attrs

    # generics
    gen_kind = r.choice(["", "", "", "", "T", "TU", "life", "const", "bounded", "where", "default", "constdef", "constonly", "life2", "default2", "constwhere", "oddnames", "constv", "constfirst"])
    tparams = []
    if gen_kind == "T":
        it.generics, tparams = "<T>", ["T"]
    elif gen_kind == "TU":
        it.generics, tparams = "<T, U>", ["T", "U"]
    elif gen_kind == "life":
        it.generics, tparams = "<'a, T>", ["T"]
    elif gen_kind == "const":
        it.generics, tparams = "<T, const N: usize>", ["T"]
    elif gen_kind == "bounded":
        it.generics, tparams = "<T: " + r.choice(["Clone + std::fmt::Debug", "Ord", "Eq + std::hash::Hash", "PartialOrd + Copy", "Ord + Clone"]) + ">", ["T"]
    elif gen_kind == "where":
        it.generics, tparams, it.where = "<T>", ["T"], " where T: " + r.choice(["Clone", "Eq", "Ord + std::fmt::Debug", "PartialEq + std::hash::Hash"])
    elif gen_kind == "default":
        it.generics, tparams = "<T = String>", ["T"]
    elif gen_kind == "constdef":
        it.generics, tparams = "<T, const N: usize = 2>", ["T"]
    elif gen_kind == "constonly":
        it.generics, tparams = r.choice(["<const N: usize>", "<const N: usize = 3, const B: bool = true>"]), []
    elif gen_kind == "constwhere":
        # no type parameters, but a where clause the type cannot be named without
        it.generics, tparams, it.where = "<const N: usize>", [], " where [u8; N]: Default"
    elif gen_kind == "constfirst":
        # a defaulted const parameter in front of a type parameter
        it.generics, tparams = "<const N: usize = 3, T = i32>", ["T"]
    elif gen_kind == "oddnames":
        # parameter names that are also names the generated code uses for itself
        it.generics, tparams = r.choice([("<inline, generics>", ["inline", "generics"]), ("<name, v>", ["name", "v"]),
                                         ("<Self_, Output>", ["Self_", "Output"])])
    elif gen_kind == "constv":
        it.generics, tparams = r.choice(["<const v: usize>", "<const inline: usize>"]), []
    elif gen_kind == "life2":
        it.generics, tparams = "<'a, 'b: 'a, T: 'a>", ["T"]
    elif gen_kind == "default2":
        it.generics, tparams = "<T = String, U = Vec<T>>", ["T", "U"]

    def sufficient_bounds(attrs):
        """replace a picked `bound` by predicates that are enough for the impl to compile, in one attribute or one per
        parameter (the lists of several attributes add up); kept in attributes of their own"""
        if not tparams or not any(k == "bound" for _sp, k, _t in attrs) or r.random() < 0.4:
            return attrs
        out = [a for a in attrs if a[1] != "bound"]
        if r.random() < 0.2:
            # the bound a serde user writes for serde's own impls (it says nothing about TS)
            out.append(("serde", "!serde-bound", "bound = " + q(", ".join(f"{p}: vsupport::serde::Serialize" for p in tparams))))
            return out
        if r.random() < 0.4 or len(tparams) == 1:
            out.append((r.choice(["ts", "ts", "serde"]), "!bound", "bound = " + q(", ".join(f"{p}: TS" for p in tparams))))
        else:
            for p in tparams:
                out.insert(r.randrange(len(out) + 1), (r.choice(["ts", "ts", "serde"]), "!bound", f'bound = "{p}: TS"'))
        return out

    def ftype():
        ts = list(FIELD_TYPES)
        if tparams:
            ts += tparams + [f"Vec<{tparams[0]}>", f"Option<{tparams[-1]}>"]
        if gen_kind in ("life", "life2"):
            ts += ["&'a str", "std::borrow::Cow<'a, str>"]
        if gen_kind == "life2":
            ts += ["&'b str", "&'a &'b str"]
        if gen_kind in ("const", "constdef", "constonly", "constwhere", "constfirst"):
            ts += ["[i32; N]", "[Option<String>; N]"]
        if gen_kind == "constv":
            cn = it.generics.split("const ")[1].split(":")[0]
            ts += [f"[i32; {cn}]", f"[Option<String>; {cn}]"]
        return r.choice(ts)

    def mk_fields(shape):
        if shape == "unit":
            return []
        n = {"newtype": 1, "tuple": r.choice([0, 2, 3]), "named": r.choice([0, 1, 2, 3])}[shape]
        fs = []
        used = set()
        for i in range(n):
            ty = ftype()
            name = None
            if shape == "named":
                name = r.choice(IDENTS_F)
                while name in used:
                    name = f"g{i}{len(used)}"
                used.add(name)
            attrs = pick(field_keys(r, ty), "field")
            fs.append((name, ty, attrs))
        # every type parameter must be used
        for p in tparams:
            if not any(p in t for _n, t, _a in fs):
                fs.append((f"p_{p.lower()}" if shape == "named" else None, f"Vec<{p}>" if shape != "unit" else p, []))
        if gen_kind in ("life", "life2") and not any("'a" in t for _n, t, _a in fs):
            fs.append(("p_l" if shape == "named" else None, "&'a str", []))
        if gen_kind == "life2" and not any("'b" in t for _n, t, _a in fs):
            fs.append(("p_m" if shape == "named" else None, "&'b str", []))
        return fs

    def keyset(attrs, skip_hides_serde=False):
        # on fields and variants, `#[ts(skip)]` makes the derive ignore the serde attributes of that member
        hide = skip_hides_serde and any(sp == "ts" and k == "skip" for sp, k, _t in attrs)
        return {k for sp, k, _t in attrs if not k.startswith("!") and not (hide and sp == "serde")}

    def field_rules(fs, shape, reachable):
        for name, ty, attrs in fs:
            ks = keyset(attrs, skip_hides_serde=True)
            if not reachable:
                continue
            if any(k == "!invalid" for _sp, k, _t in attrs):
                must_err.append("field: unknown key or malformed value in #[ts(..)]")
            for a, b in [("type", "as"), ("type", "inline"), ("type", "flatten"), ("type", "optional"), ("flatten", "as"),
                         ("flatten", "rename"), ("flatten", "inline"), ("flatten", "optional")]:
                if a in ks and b in ks:
                    must_err.append(f"field: `{a}` is not compatible with `{b}`")
            if name is None:
                for k in ("flatten", "rename", "optional"):
                    if k in ks:
                        must_err.append(f"field: `{k}` on a tuple field")

    if r.random() < 0.5:
        it.kind = "struct"
        it.shape = r.choice(["unit", "newtype", "tuple", "named", "named", "named"])
        if it.shape == "unit" and (tparams or gen_kind in ("life", "life2")):
            it.shape = "named"
        it.cattrs = sufficient_bounds(pick(struct_keys(r, it.shape == "named"), "struct"))
        if tparams and r.random() < 0.2:
            it.cattrs.append(("ts", "concrete", f"concrete({tparams[0]} = i32)"))
        it.fields = mk_fields(it.shape)
        if it.shape in ("newtype", "tuple"):
            it.shape = "newtype" if len(it.fields) == 1 else "tuple"
        ks = keyset(it.cattrs)
        for a, b in [("type", "as"), ("type", "rename_all"), ("type", "tag"), ("type", "optional_fields"), ("as", "tag"),
                     ("as", "rename_all"), ("as", "optional_fields")]:
            if a in ks and b in ks:
                must_err.append(f"struct: `{a}` is not compatible with `{b}`")
        if it.shape != "named":
            for k in ("tag", "rename_all", "optional_fields"):
                if k in ks:
                    must_err.append(f"struct: `{k}` cannot be used with unit or tuple structs")
        field_rules(it.fields, it.shape, reachable=not ({"type", "as"} & ks))
    else:
        it.kind = "enum"
        it.cattrs = sufficient_bounds(pick(enum_keys(r), "enum"))
        ks = keyset(it.cattrs)
        for a in ("type", "as"):
            for b in ("rename_all", "rename_all_fields", "tag", "content", "untagged") + (("as",) if a == "type" else ()):
                if a in ks and b in ks:
                    must_err.append(f"enum: `{a}` is not compatible with `{b}`")
        if "untagged" in ks and ("tag" in ks or "content" in ks):
            must_err.append("enum: untagged cannot be used with tag/content")
        if "content" in ks and "tag" not in ks and "untagged" not in ks:
            must_err.append("enum: content cannot be used without tag")
        reach_v = not ({"type", "as"} & ks)
        used = set()
        for i in range(r.choice([0, 1, 2, 3, 4])):
            vshape = r.choice(["unit", "newtype", "tuple", "named"])
            vname = r.choice(IDENTS_V)
            while vname in used:
                vname = f"W{i}{len(used)}"
            used.add(vname)
            vattrs = pick(variant_keys(r), "variant")
            vfields = mk_fields(vshape) if i > 0 or not tparams else mk_fields("named" if vshape == "unit" else vshape)
            if vshape in ("newtype", "tuple"):
                vshape = "newtype" if len(vfields) == 1 else ("tuple" if vfields else "tuple")
            if vshape == "unit" and vfields:
                vshape = "named"
            vks = keyset(vattrs, skip_hides_serde=True)
            if reach_v and any(k == "!invalid" for _sp, k, _t in vattrs):
                must_err.append("variant: unknown key or malformed value in #[ts(..)]")
            if reach_v:
                for a, b in [("as", "type"), ("as", "rename_all"), ("type", "rename_all"), ("type", "inline")]:
                    if a in vks and b in vks:
                        must_err.append(f"variant: `{a}` is not compatible with `{b}`")
                if vshape != "named" and "rename_all" in vks:
                    must_err.append("variant: `rename_all` is not applicable to unit or tuple variants")
            field_rules(vfields, vshape, reachable=reach_v and "skip" not in vks)
            it.variants.append((vname, vshape, vattrs, vfields))
        if tparams and not it.variants:
            it.variants.append(("P", "newtype", [], [(None, f"Vec<{tparams[0]}>", [])]))
            if len(tparams) > 1:
                it.variants.append(("P2", "newtype", [], [(None, tparams[1], [])]))
            if gen_kind == "life":
                it.variants.append(("P3", "newtype", [], [(None, "&'a str", [])]))
            if gen_kind == "life2":
                it.variants.append(("P3", "newtype", [], [(None, "&'a &'b str", [])]))
    if any(k == "!invalid" for _sp, k, _t in it.cattrs):
        must_err.append("container: unknown key or malformed value in #[ts(..)]")
    return it, must_err


# -------------------------------------------------------------------------------------------
# C10: variant groups

def c10_groups(r: random.Random, n_groups: int):
    """Returns list of groups; a group = dict(kind, base(desc), members=[(label, source)], expect='equal'|...)."""
    groups = []

    # (level, key, attribute text A, different-valued attribute text B or None, base item template with {C} {V} {F} slots)
    S_NAMED = "{C}struct S {{ {F}a_field: i32, b_field: Option<String>, }}"
    E_BASE = "{C}enum E {{ {V}First {{ {F}x_val: i32 }}, Second(String), Third, }}"
    catalog = [
        ("struct", "rename", 'rename = "Xs"', 'rename = "Ys"', S_NAMED, "C"),
        ("struct", "rename_all", 'rename_all = "camelCase"', 'rename_all = "UPPERCASE"', S_NAMED, "C"),
        ("struct", "tag", 'tag = "kind"', 'tag = "other"', S_NAMED, "C"),
        ("struct", "bound", 'bound = ""', None, S_NAMED, "C"),
        ("enum", "rename", 'rename = "Xe"', 'rename = "Ye"', E_BASE, "C"),
        ("enum", "rename_all", 'rename_all = "snake_case"', 'rename_all = "kebab-case"', E_BASE, "C"),
        ("enum", "rename_all_fields", 'rename_all_fields = "PascalCase"', 'rename_all_fields = "UPPERCASE"', E_BASE, "C"),
        ("enum", "tag", 'tag = "t"', 'tag = "u"', E_BASE.replace("Second(String), ", ""), "C"),
        ("enum", "untagged", "untagged", None, E_BASE, "C"),
        ("variant", "rename", 'rename = "vx"', 'rename = "vy"', E_BASE, "V"),
        ("variant", "rename_all", 'rename_all = "UPPERCASE"', 'rename_all = "camelCase"', E_BASE, "V"),
        ("variant", "rename", 'rename = "v\\"q"', 'rename = "v\\\\b"', E_BASE, "V"),
        ("field", "rename", 'rename = "f\\"q"', 'rename = "f q"', S_NAMED, "F"),
        ("variant", "skip", "skip", None, E_BASE, "V"),
        ("variant", "untagged", "untagged", None, E_BASE, "V"),
        ("field", "rename", 'rename = "fx"', 'rename = "fy"', S_NAMED, "F"),
        ("field", "skip", "skip", None, S_NAMED, "F"),
        ("field", "rename", 'rename = "gx"', 'rename = "gy"', E_BASE, "F"),
        ("field", "skip", "skip", None, E_BASE, "F"),
    ]
    # the only field of a newtype variant / a field of a tuple variant / the only field of a newtype struct
    E_NEWTYPE = "{C}enum E {{ {V}First {{ x_val: i32 }}, Second({F}String), Third, }}"
    E_TUPLE = "{C}enum E {{ {V}First {{ x_val: i32 }}, Second({F}String, i32), Third, }}"
    for tmpl_nt in (E_NEWTYPE, E_TUPLE, '#[ts(tag = "t", content = "c")] ' + E_NEWTYPE, "#[ts(untagged)] " + E_NEWTYPE,
                    "{C}struct S({F}String);", "{C}struct S({F}String, i32);"):
        catalog.append(("field", "skip", "skip", None, tmpl_nt, "F"))
    flatten_base = "struct S {{ {F}inner: Inner, own: i32, }}"
    catalog.append(("field", "flatten", "flatten", None, flatten_base, "F"))
    # adjacently tagged: two keys
    pairs = [
        ("enum", ['tag = "t"', 'content = "c"'], E_BASE, "C"),
        ("struct", ['rename = "Zs"', 'rename_all = "SCREAMING_SNAKE_CASE"'], S_NAMED, "C"),
        ("struct", ['tag = "t"', 'rename_all = "camelCase"', 'rename = "Zs"'], S_NAMED, "C"),
        ("enum", ['rename_all = "lowercase"', 'rename_all_fields = "UPPERCASE"'], E_BASE, "C"),
        ("variant", ['rename = "vv"', 'rename_all = "SCREAMING-KEBAB-CASE"'], E_BASE, "V"),
        ("field", ['rename = "ff"', "default"], S_NAMED, "F"),
    ]

    # other ts attributes the compared ones are combined with: (text, keys it cannot be combined with)
    contexts = {
        "struct": [('type = "Array<string>"', {"rename_all", "tag"}), ('as = "Vec<String>"', {"rename_all", "tag"}),
                   ("export", set()), ('export_to = "sub/dir/"', set()), ("optional_fields", set())],
        "enum": [('type = "string | null"', {"rename_all", "rename_all_fields", "tag", "content", "untagged"}),
                 ('as = "Option<String>"', {"rename_all", "rename_all_fields", "tag", "content", "untagged"}),
                 ("export", set()), ('export_to = "sub/e.ts"', set())],
        "variant": [('type = "string"', {"rename_all"}), ('as = "String"', {"rename_all"}), ("inline", set())],
        "field": [('type = "string"', {"flatten"}), ('as = "String"', {"flatten"}), ("inline", {"flatten"}),
                  # a serde attribute that only matters for a field that is not skipped
                  ('#[serde(with = "m")]', {"rename", "flatten", "rename+default"})],
    }
    ctx = [""]

    def contexts_for(level, keys):
        return [c for c, bad in contexts[level] if not (bad & set(keys))]

    def fill(tmpl, slot, attrs_text):
        d = {"C": "", "V": "", "F": ""}
        if ctx[0]:
            attrs_text = (ctx[0] if ctx[0].startswith("#[") else f"#[ts({ctx[0]})]") + (" " if attrs_text else "") + attrs_text
        d[slot] = attrs_text + (" " if attrs_text else "")
        return tmpl.format(**d)

    def unknown_for(level):
        us = list(UNKNOWN_SERDE)
        if level == "field":
            us = [u for u in us if not u.startswith("with =")]   # `with` is a supported key on fields
        return r.choice(us)

    combos = [(entry, "") for entry in catalog] + [(entry, c) for entry in catalog for c in contexts_for(entry[0], [entry[1]])]
    for (level, key, a, b, tmpl, slot), c in combos:
        ctx[0] = c
        base = fill(tmpl, slot, "")
        # spelling
        groups.append({"kind": "spelling", "level": level, "key": key, "unknown_class": None,
                       "members": [("ts", fill(tmpl, slot, f"#[ts({a})]")), ("serde", fill(tmpl, slot, f"#[serde({a})]")),
                                   # a list may end in a comma, like every attribute list in Rust
                                   ("serde-trailing-comma", fill(tmpl, slot, f"#[serde({a},)]")),
                                   ("ts-trailing-comma", fill(tmpl, slot, f"#[ts({a}, )]")),
                                   # the values arrive through `$v:literal` fragments of a macro_rules! macro
                                   ("serde-literal-fragments", "//@fragments\n" + fill(tmpl, slot, f"#[serde({a})]")),
                                   ("ts-literal-fragments", "//@fragments\n" + fill(tmpl, slot, f"#[ts({a})]"))],
                       "plain": base})
        # precedence
        if b is not None:
            groups.append({"kind": "precedence", "level": level, "key": key, "unknown_class": None,
                           "members": [("ts-only", fill(tmpl, slot, f"#[ts({a})]")),
                                       ("ts+serde", fill(tmpl, slot, f"#[ts({a})] #[serde({b})]")),
                                       ("serde+ts", fill(tmpl, slot, f"#[serde({b})] #[ts({a})]"))],
                           "plain": base})
        if c:
            groups[-1]["context"] = c.split(" ")[0]
            if b is not None:
                groups[-2]["context"] = c.split(" ")[0]
    pair_combos = [(pr, "") for pr in pairs] + [(pr, c) for pr in pairs for c in contexts_for(pr[0], [k.split(" ")[0] for k in pr[1]])]
    for (level, keys, tmpl, slot), c in pair_combos:
        ctx[0] = c
        base = fill(tmpl, slot, "")
        joined = ", ".join(keys)
        rev = ", ".join(reversed(keys))
        split = " ".join(f"#[serde({k})]" for k in keys)
        groups.append({"kind": "list-shape", "level": level, "key": "+".join(k.split(" ")[0] for k in keys), "unknown_class": None,
                       "members": [("one-list", fill(tmpl, slot, f"#[serde({joined})]")),
                                   ("one-list-trailing-comma", fill(tmpl, slot, f"#[serde({joined},)]")),
                                   ("reversed", fill(tmpl, slot, f"#[serde({rev})]")),
                                   ("split", fill(tmpl, slot, split)),
                                   ("ts-list", fill(tmpl, slot, f"#[ts({', '.join(k for k in keys if k != 'default')})]"))],
                       "plain": base})
        if c:
            groups[-1]["context"] = c.split(" ")[0]
    # unknown-key insertion, randomised
    while len(groups) < n_groups:
        level, key, a, b, tmpl, slot = r.choice(catalog)
        ctx[0] = r.choice([""] + contexts_for(level, [key]))
        u = unknown_for(level)
        uclass = ("bareword" if "=" not in u and "(" not in u else ("call" if "(" in u.split("=")[0] else "key-value"))
        u2 = unknown_for(level)
        members = [
            ("alone", fill(tmpl, slot, f"#[serde({a})]")),
            ("unknown-first", fill(tmpl, slot, f"#[serde({u}, {a})]")),
            ("unknown-last", fill(tmpl, slot, f"#[serde({a}, {u})]")),
            ("unknown-own-list-before", fill(tmpl, slot, f"#[serde({u})] #[serde({a})]")),
            ("unknown-own-list-after", fill(tmpl, slot, f"#[serde({a})] #[serde({u})]")),
            ("two-unknown-around", fill(tmpl, slot, f"#[serde({u}, {a}, {u2})]")),
            # an empty list (what `#[serde($($extra)*)]` of a macro expands to without arguments) next to the real one
            ("empty-list-before", fill(tmpl, slot, f"#[serde()] #[serde({a})]")),
            ("empty-list-after", fill(tmpl, slot, f"#[serde({a})] #[serde()]")),
        ]
        groups.append({"kind": "unknown-insertion", "level": level, "key": key, "unknown": u, "unknown_class": uclass,
                       "members": members, "plain": fill(tmpl, slot, "")})
        if ctx[0]:
            groups[-1]["context"] = ctx[0].split(" ")[0]
    ctx[0] = ""
    return groups


PRELUDE_TYPES = "struct Inner { p: i32, q: String }"
