"""Text corpus: hostile identifiers, rename/tag/content strings and doc comments (C04, C15)."""
import random

from tsgen import Field, Gen, Item, Profile, Ty, Variant, prim, rs_str

# (class, text)
HOSTILE_STRINGS = [
    ("plain", "plain"), ("space", "with space"), ("dash", "kebab-name"), ("dollar", "$dollar"), ("leading-digit", "1st"),
    ("dot", "a.b"), ("non-ascii", "ünï-ñ"), ("emoji", "sm😀ile"), ("keyword", "delete"), ("keyword", "class"),
    ("dquote", 'a"b'), ("backslash", "a\\b"), ("empty", ""), ("comment-end", "x*/y"), ("comment-start", "/*x"),
    ("newline", "line1\nline2"), ("squote", "it's"), ("backtick", "a`b"), ("brace", "a}b{"), ("colon", "a:b"),
    ("tab", "a\tb"), ("only-space", " "), ("unicode-escape-like", "\\u0041"),
    # alphanumeric for Unicode, but no identifier character for TypeScript
    ("alnum-not-identifier", "x\u00b2"), ("alnum-not-identifier", "\u2460st"), ("alnum-not-identifier", "a\u00bdb"),
    ("alphabetic-not-identifier", "\u24b6"), ("alphabetic-not-identifier", "\u0345x"),
    # what the object-merging rewrite looks for
    ("splice-pattern", "a } & { b"), ("line-separator", "a\u2028b"),
]

FIELD_IDENTS = ["r#type", "r#struct", "r#fn", "delete", "class", "function", "new", "void", "r#typeof", "instanceof", "ünï", "ñ",
                "__a", "a1", "_1", "constructor", "prototype", "r#in", "r#enum", "default", "export", "import", "r#yield"]
VARIANT_IDENTS = ["Delete", "Class", "Ünï", "Ñandú", "V_", "_V", "Null", "Undefined", "Object", "Function", "r#Await"]
TYPE_NAMES = ["Ünï", "Ñ1", "_Lead", "Dollar_", "Ty1"]

DOC_TEXTS = [
    ("plain", " plain docs"), ("comment-end", " ends */ early"), ("comment-start", " /* opens"), ("glob", " see **/*.rs"),
    ("export-type", " export type X = 1;"), ("dquote", ' say "hi"'), ("backslash", " back\\slash"), ("non-ascii", " ünï 😀"),
    ("long", " " + "x" * 3000), ("at", " @param x {string}"), ("html", " <script>alert(1)</script>"), ("empty-line", ""),
    ("star", " * bullet"), ("import", ' import type { A } from "./a";'), ("brace", ' json {"a": 1} and {} and {{x}}'),
    ("percent", " 100% {0} %s"), ("leading-slash", "/ export type Evil = any;"), ("leading-slash", "/"),
    ("carriage-return", " ends *\r/ export type Evil = any; /* "), ("carriage-return", " first\r\n\r\n second"),
    ("open-paren", " see ( here"), ("close-paren", " a ) b"), ("splice-pattern", " a } & { b"), ("odd-quote", ' one " quote'),
]


def effective_form(cls_text, form):
    """a carriage return can only be written in a `#[doc = ".."]` attribute (rustc rejects a bare CR in doc comments)"""
    if cls_text is not None and "\r" in cls_text[1] and form not in ("attr", "attr-multiline", "attr-multiline+attr"):
        return "attr"
    return form


def doc_attr_lines(r, cls_text, form):
    """Rust source lines that attach the documentation text in the given form."""
    cls, text = cls_text
    form = effective_form(cls_text, form)
    if (form.startswith("block") or form in ("line", "two-lines")) and text.startswith("/"):
        text = " " + text       # `/**/` would be an empty Rust comment, `////` a plain comment
    if form == "line":
        return [f"///{text}"]
    if form == "two-lines":
        return [f"///{text}", "/// second line"]
    if form == "attr":
        return [f"#[doc = {rs_str(text)}]"]
    if form == "block":
        # a literal */ cannot be written inside a Rust block comment, and /* would nest
        safe = text.replace("*/", "* /").replace("/*", "/ *")
        return [f"/**{safe}\n more */"]
    if form == "block-blank":
        safe = text.replace("*/", "* /").replace("/*", "/ *")
        return [f"/**{safe}\n\n after an empty line */"]
    if form == "block+line":
        # a multi-line block followed by a line comment: two doc attributes, the first contains a line break
        safe = text.replace("*/", "* /").replace("/*", "/ *")
        return [f"/**{safe}\n more */", "/// trailing line"]
    if form == "attr-multiline":
        # one attribute whose text has a line break: emitted verbatim between /** and */
        return [f"#[doc = {rs_str(text + chr(10) + ' second attr line')}]"]
    if form == "attr-multiline+attr":
        return [f"#[doc = {rs_str(text + chr(10) + ' second attr line')}]", '#[doc = " third attr"]']
    if form == "block-nested":
        # Rust block comments nest, so the documentation text itself may contain `/* .. */`
        safe = text.replace("*/", "* /").replace("/*", "/ *")
        return [f"/**{safe} /* nested */ tail\n more */"]
    raise ValueError(form)


class TextGen:
    def __init__(self, seed, prefix):
        self.r = random.Random(seed)
        self.prefix = prefix
        self.g = Gen(seed, prefix, Profile(ts_only=True))
        self.items = []
        self.info = {}          # item id -> dict(position, cls, doc group ...)
        self.n = 0

    def nid(self):
        self.n += 1
        return f"{self.prefix}{self.n}"

    def mk(self, kind, **kw):
        iid = self.nid()
        it = Item(iid, iid, kind, derives=["TS", "SerdeAttrs"], **kw)
        it.serde = False
        return it

    def add(self, it, **info):
        self.items.append(it)
        self.info[it.id] = info
        return it

    # ---- C04: one hostile element per item ----------------------------------------------------
    def hostile_items(self):
        r = self.r
        for cls, s in HOSTILE_STRINGS:
            it = self.mk("named", fields=[Field("a", prim("i32"), rename=s), Field("b", prim("String"))])
            self.add(it, position="field-rename", cls=cls, text=s)
            it = self.mk("enum", variants=[Variant("A", "unit", rename=s), Variant("B", "newtype", [Field(None, prim("i32"))])])
            self.add(it, position="variant-rename", cls=cls, text=s)
            # the same name given as an expression (`rename` accepts one): not a literal the macro could escape while expanding
            it = self.mk("enum", variants=[Variant("A", "unit", extra_attrs=[f"#[ts(rename = *&{rs_str(s)})]"]),
                                           Variant("B", "newtype", [Field(None, prim("i32"))])])
            self.add(it, position="variant-rename-expr", cls=cls, text=s)
            it = self.mk("enum", tag=s, variants=[Variant("A", "unit"), Variant("B", "struct", [Field("x", prim("i32"))])])
            self.add(it, position="tag", cls=cls, text=s)
            it = self.mk("enum", tag="t", content=s, variants=[Variant("A", "unit"), Variant("B", "newtype", [Field(None, prim("i32"))])])
            self.add(it, position="content", cls=cls, text=s)
            it = self.mk("named", tag=s, fields=[Field("x", prim("i32"))])
            self.add(it, position="struct-tag", cls=cls, text=s)
            it = self.mk("enum", variants=[Variant("A", "struct", [Field("f", prim("i32"), rename=s)])])
            self.add(it, position="variant-field-rename", cls=cls, text=s)
        # attributes that are none of the derive's business, at every place it reads attributes
        for cls, a in (("doc-hidden", "#[doc(hidden)]"), ("doc-alias", '#[doc(alias = "other_name")]'), ("allow", "#[allow(dead_code)]"),
                       ("cfg_attr", "#[cfg_attr(all(), allow(unused))]"), ("doc-cfg_attr", '#[cfg_attr(all(), doc = " conditional docs")]'),
                       ("must_use", "#[must_use]"), ("non_exhaustive", "#[non_exhaustive]")):
            container_ok = True
            field_ok = cls not in ("must_use", "non_exhaustive")
            if container_ok:
                it = self.mk("named", extra_attrs=[a], fields=[Field("a", prim("i32"))])
                self.add(it, position="bystander-attr-container", cls=cls, text=a)
                it = self.mk("enum", extra_attrs=[a], variants=[Variant("A", "unit"), Variant("B", "newtype", [Field(None, prim("i32"))])])
                self.add(it, position="bystander-attr-container", cls=cls, text=a)
            if field_ok:
                it = self.mk("named", fields=[Field("a", prim("i32"), extra_attrs=[a]), Field("b", prim("bool"))])
                self.add(it, position="bystander-attr-field", cls=cls, text=a)
                it = self.mk("tuple", fields=[Field(None, prim("i32"), extra_attrs=[a]), Field(None, prim("bool"))])
                self.add(it, position="bystander-attr-field", cls=cls, text=a)
                it = self.mk("newtype", fields=[Field(None, prim("i32"), extra_attrs=[a])])
                self.add(it, position="bystander-attr-field", cls=cls, text=a)
                it = self.mk("enum", variants=[Variant("A", "struct", [Field("f", prim("i32"), extra_attrs=[a])]),
                                               Variant("B", "tuple", [Field(None, prim("i32"), extra_attrs=[a]), Field(None, prim("u8"))])])
                self.add(it, position="bystander-attr-variant-field", cls=cls, text=a)
            if cls not in ("must_use",):
                it = self.mk("enum", variants=[Variant("A", "unit", extra_attrs=[a]), Variant("B", "struct", [Field("f", prim("i32"))], extra_attrs=[a])])
                self.add(it, position="bystander-attr-variant", cls=cls, text=a)
        for ident in FIELD_IDENTS:
            it = self.mk("named", fields=[Field(ident, prim("i32")), Field("other", prim("bool"))])
            self.add(it, position="field-ident", cls="ident", text=ident)
            it = self.mk("named", rename_all=r.choice(["camelCase", "UPPERCASE", "kebab-case"]), fields=[Field(ident, prim("i32"))])
            self.add(it, position="field-ident+rename_all", cls="ident", text=ident)
        for ident in VARIANT_IDENTS:
            it = self.mk("enum", variants=[Variant(ident, "unit"), Variant("Other", "newtype", [Field(None, prim("u8"))])])
            self.add(it, position="variant-ident", cls="ident", text=ident)
            it = self.mk("enum", tag="t", rename_all=r.choice(["snake_case", "lowercase", "SCREAMING-KEBAB-CASE"]),
                         variants=[Variant(ident, "struct", [Field("f", prim("u8"))])])
            self.add(it, position="variant-ident+rename_all", cls="ident", text=ident)
        for nme in TYPE_NAMES:
            it = self.mk("named", fields=[Field("a", prim("i32"))])
            it.name = f"{nme}{it.id}"
            self.add(it, position="type-ident", cls="ident", text=nme)
            it = self.mk("named", rename=f"{nme}{self.n}r", fields=[Field("a", prim("i32"))])
            self.add(it, position="type-rename", cls="ident", text=nme)

    # ---- C04: type names no TypeScript declaration can carry ----------------------------------
    def impossible_type_names(self):
        """`export type <name> = ..` has no quoted form: a name that is a reserved word of TypeScript, or is not an identifier at
        all, cannot be declared. Such a type is either refused by the derive (a diagnostic) or whatever is written still parses."""
        for cls, ident in (("reserved-word", "r#for"), ("reserved-word", "delete"), ("reserved-word", "void"), ("reserved-word", "r#enum"),
                           ("strict-reserved-word", "r#let"), ("reserved-word", "function"), ("predefined-type", "string")):
            it = self.mk("named", fields=[Field("a", prim("i32"))])
            it.name = ident
            self.add(it, position="type-name-impossible", cls=cls, text=ident)
        for cls, ren in (("space", "with space"), ("dash", "kebab-name"), ("leading-digit", "1st"), ("empty", ""), ("reserved-word", "for"),
                         ("dquote", 'a"b'), ("dot", "a.b"), ("reserved-word", "null")):
            it = self.mk("named", rename=ren, fields=[Field("a", prim("i32"))])
            self.add(it, position="type-name-impossible", cls=cls, text=ren)
            it = self.mk("enum", rename=ren, variants=[Variant("A", "unit"), Variant("B", "unit")])
            self.add(it, position="type-name-impossible", cls=cls, text=ren)

    # ---- C15: doc groups ---------------------------------------------------------------------
    def doc_groups(self, n_groups):
        r = self.r
        shapes = ["named", "enum-struct-variant", "tuple", "enum-unit", "flatten", "only-flattened-enum", "internal-newtype-inlined-enum",
                  "untagged-twin-variants"]
        for gi in range(n_groups):
            shape = shapes[gi % len(shapes)]
            position = r.choice({"named": ["container", "field"], "enum-struct-variant": ["container", "variant", "variant-field"],
                                 "tuple": ["container"], "enum-unit": ["container", "variant"], "flatten": ["flattened-field", "field"],
                                 "only-flattened-enum": ["flattened-enum-variant-field", "flattened-enum-variant"],
                                 "internal-newtype-inlined-enum": ["inlined-enum-variant-field", "inlined-enum-variant-field", "inlined-enum-variant"],
                                 "untagged-twin-variants": ["variant-field", "variant-field", "variant"]}[shape])
            texts = [None, r.choice(DOC_TEXTS), r.choice(DOC_TEXTS)]
            if shape == "only-flattened-enum" and r.random() < 0.5:
                # the embedded comment must not disturb what is done to the surrounding type text
                texts = [None, r.choice([t for t in DOC_TEXTS if t[0] in ("open-paren", "close-paren")]),
                         r.choice([t for t in DOC_TEXTS if t[0] in ("odd-quote", "non-ascii", "open-paren")])]
            form = r.choice(["line", "two-lines", "attr", "block", "block-blank", "block+line", "attr-multiline", "attr-multiline+attr",
                             "block-nested"])
            # other attributes on the documented node (the same for every member of the group)
            fctx = r.choice([None, None, None, '#[ts(type = "string")]', '#[ts(as = "String")]', "#[ts(inline)]", "#[ts(optional)]",
                             '#[ts(rename = "alpha")]', "#[serde(default)]"])
            if shape in ("tuple", "enum-unit", "only-flattened-enum", "internal-newtype-inlined-enum", "untagged-twin-variants"):
                fctx = None
            cctx = r.choice([None, None, None, '#[ts(rename_all = "lowercase")]', "#[ts(optional_fields)]", '#[ts(tag = "t")]',
                             # the same kind of attribute in its serde spelling (one or two lists), and one ts-rs does not know
                             '#[serde(rename_all = "lowercase")]', '#[serde(tag = "t")] #[serde(rename_all = "lowercase")]',
                             "#[serde(deny_unknown_fields)]"]) if shape == "named" else \
                r.choice([None, None, '#[serde(rename_all = "snake_case")]', "#[serde(deny_unknown_fields)]"]) if shape in ("enum-struct-variant", "enum-unit") else None
            alpha_ty = Ty("opt", args=[prim("i32")]) if fctx == "#[ts(optional)]" else prim("i32")
            fextra = [fctx] if fctx else []
            cextra = [cctx] if cctx else []
            for vi, t in enumerate(texts):
                docs = doc_attr_lines(r, t, form) if t is not None else []
                cdocs = docs if position == "container" else []
                fdocs = docs if position in ("field", "variant-field", "flattened-field") else []
                vdocs = docs if position == "variant" else []
                if shape == "named":
                    it = self.mk("named", docs=cdocs, extra_attrs=list(cextra),
                                 fields=[Field("alpha", alpha_ty, docs=fdocs, extra_attrs=list(fextra)), Field("beta", Ty("opt", args=[prim("String")]))])
                elif shape == "enum-struct-variant":
                    it = self.mk("enum", docs=cdocs, tag="kind", extra_attrs=list(cextra), variants=[
                        Variant("First", "struct", [Field("alpha", alpha_ty, docs=fdocs, extra_attrs=list(fextra))], docs=vdocs),
                        Variant("Second", "unit")])
                elif shape == "tuple":
                    it = self.mk("tuple", docs=cdocs, fields=[Field(None, prim("i32")), Field(None, prim("bool"))])
                elif shape == "enum-unit":
                    it = self.mk("enum", docs=cdocs, extra_attrs=list(cextra), variants=[Variant("First", "unit", docs=vdocs), Variant("Second", "unit")])
                elif shape == "untagged-twin-variants":
                    # two neighbouring variants that are spelled alike once the comments are taken away: still two members
                    it = self.mk("enum", docs=cdocs, untagged=True, variants=[
                        Variant("First", "struct", [Field("alpha", prim("f64"), docs=fdocs)], docs=vdocs),
                        Variant("Second", "struct", [Field("alpha", prim("f64"))]),
                        Variant("Third", "newtype", [Field(None, prim("String"))])])
                elif shape == "internal-newtype-inlined-enum":
                    # the documented enum is inlined as the payload of a newtype variant of an internally tagged enum: a union,
                    # which the tag object is intersected with; the comments inside are no part of that decision
                    inner = self.mk("enum", variants=[
                        Variant("First", "struct", [Field("alpha", prim("i32"), docs=docs if position.endswith("variant-field") else [])],
                                docs=docs if position.endswith("-variant") else []),
                        Variant("Second", "struct", [Field("beta", prim("bool"))])])
                    self.add(inner, position="helper", cls="helper", text="")
                    it = self.mk("enum", tag="kind", variants=[
                        Variant("Wrapped", "newtype", [Field(None, Ty("user", item=inner), inline=True)]), Variant("Other", "unit")])
                elif shape == "only-flattened-enum":
                    # the documented enum is the only (flattened) member of the examined struct: its text, comments included,
                    # is what the struct's declaration is made of
                    inner = self.mk("enum", variants=[
                        Variant("First", "struct", [Field("alpha", prim("i32"), docs=docs if position.endswith("variant-field") else [])],
                                docs=docs if position.endswith("-variant") else []),
                        Variant("Second", "unit")])
                    self.add(inner, position="helper", cls="helper", text="")
                    if (gi // len(shapes)) % 2:
                        it = self.mk("named", fields=[Field("flat", Ty("user", item=inner), flatten=True)])
                    else:
                        # ... or one of two flattened enums of the only (flattened) member
                        other = self.mk("enum", variants=[Variant("Third", "struct", [Field("gamma", prim("bool"))]), Variant("Fourth", "unit")])
                        self.add(other, position="helper", cls="helper", text="")
                        mid = self.mk("named", fields=[Field("ea", Ty("user", item=inner), flatten=True),
                                                       Field("eb", Ty("user", item=other), flatten=True)])
                        self.add(mid, position="helper", cls="helper", text="")
                        it = self.mk("named", fields=[Field("flat", Ty("user", item=mid), flatten=True)])
                else:
                    inner = self.mk("named", fields=[Field("inner_a", prim("u8"))])
                    self.add(inner, position="helper", cls="helper", text="")
                    it = self.mk("named", fields=[Field("alpha", alpha_ty, docs=fdocs if position == "field" else [], extra_attrs=list(fextra)),
                                                   Field("flat", Ty("user", item=inner), flatten=True,
                                                         docs=fdocs if position == "flattened-field" else [])])
                self.add(it, position=position, cls=(t[0] if t else "none"), text=(t[1] if t else None), group=f"{self.prefix}g{gi}",
                         variant=vi, form=effective_form(t, form), shape=shape,
                         ctx=((fctx or "").split("(")[-1].split(" ")[0].rstrip(")]") or None) if not cctx else
                         "+".join(x.split("(")[-1].split(" ")[0].rstrip(")]") for x in (fctx, cctx) if x),
                         documents=("alpha" if position in ("field", "variant-field") else ("@container" if position == "container" else None)))

    # ---- merge pairs: two documented types in one file ---------------------------------------
    def merge_pairs(self, n):
        r = self.r
        for k in range(n):
            path = f"{self.prefix.lower()}merge/pair{k}.ts"
            first = None
            for j in range(2):
                t = r.choice(DOC_TEXTS)
                form = effective_form(t, r.choice(["line", "two-lines", "attr", "block", "block-blank"]) if k % 3 else "block-blank")
                fdoc = r.choice(DOC_TEXTS)
                if j == 1 and k % 4 == 1:
                    # the documentation of a field quotes the declaration of the other type in the same file
                    fdoc = ("mentions-sibling", f" export type {first.name} = number;")
                it = self.mk("named", docs=doc_attr_lines(r, t, form), export_to=path,
                             fields=[Field("m", prim("i32"), docs=doc_attr_lines(r, fdoc, "line"))])
                if first is None:
                    first, first_form = it, form
                self.add(it, position="merge", cls=t[0], text=t[1], pair=f"{self.prefix}p{k}", form=form,
                         field_cls=fdoc[0])
                if j == 1:
                    # one root that reaches both: a single export_all merges the two into their file
                    holder = self.mk("named", fields=[Field("one", Ty("user", item=first)), Field("two", Ty("user", item=it))])
                    self.add(holder, position="merge-holder", cls=t[0], text=None, form=form, forms=[first_form, form], field_cls=fdoc[0])

    def finish(self):
        self.g.items = self.items
        self.g.make_entries()
        return self.g
