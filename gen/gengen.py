"""C07 corpus: generic definitions (type / lifetime / const parameters, defaults, concrete(..)) and instantiations."""
import random

from tsgen import Field, Gen, Item, Profile, Ty, Variant, prim

DERIVES = ["TS", "SerdeAttrs"]


def user(it, *args):
    return Ty("user", item=it, args=list(args))


def raw(text):
    return Ty("raw", text)


class GenericGen:
    def __init__(self, seed, prefix):
        self.r = random.Random(seed)
        self.prefix = prefix
        self.items = []
        self.entries = []       # (id, rust type text, [arg rust texts for non-concrete params], item)
        self.n = 0
        self.leaves = []
        self.inner = []         # earlier generic definitions usable inside others (1 type param, no lifetime/const)
        self.meta = {}

    def nid(self):
        self.n += 1
        return f"{self.prefix}{self.n}"

    def mk(self, kind, **kw):
        iid = self.nid()
        it = Item(iid, iid, kind, derives=list(DERIVES), **kw)
        it.serde = False
        self.items.append(it)
        return it

    def setup(self):
        # argument-only leaf types: never referenced by a generic definition, so their names must not leak into decl()
        for k in range(3):
            a = self.mk("named", fields=[Field(f"arg{k}", prim("u8"))])
            self.leaves.append(a)
            self.meta[a.id] = {"role": "arg-leaf"}
        # a type that definitions may legitimately mention
        self.dep = self.mk("named", fields=[Field("dep_x", prim("bool"))])
        self.meta[self.dep.id] = {"role": "dep"}

    def fixed_definitions(self):
        """hand-minimised inputs of the known findings (so they are exercised whatever the seed)"""
        it = self.mk("named", fields=[Field("fix_f", Ty("param", "T")), Field("fix_p", prim("i32"))])
        it.params = ["T"]
        it.generics_src = "<T>"
        it.optional_fields = "opt"
        it.tags.append("k:optional-fields-generic")
        self.meta[it.id] = {"role": "definition", "params": ["T"], "ts_params": ["T"], "defaults": [], "concrete": None, "lifetime": False,
                            "const": False, "uses": {"T": "bare"}, "kind": "named", "tags": list(it.tags), "optional_fields": "opt"}
        for k, a in enumerate(["Option<i32>", "i32", "Option<String>", self.leaves[0].name]):
            self.entries.append((f"{it.id}#{k}", f"{it.name}<{a}>", [a], it, ["container" if "Option" in a else "prim"]))

        # a type parameter written as a raw identifier
        rawp = self.mk("named", fields=[Field("fix_raw", Ty("param", "r#gen")), Field("fix_raws", Ty("vec", args=[Ty("param", "r#gen")]))])
        rawp.params = ["r#gen"]
        rawp.generics_src = "<r#gen>"
        self.meta[rawp.id] = {"role": "definition", "params": ["gen"], "ts_params": ["gen"], "defaults": [], "concrete": None, "lifetime": False,
                              "const": False, "uses": {"gen": "bare"}, "kind": "named", "tags": [], "optional_fields": None}
        for k, a in enumerate([self.leaves[0].name, "String"]):
            self.entries.append((f"{rawp.id}#{k}", f"{rawp.name}<{a}>", [a], rawp, ["user" if k == 0 else "prim"]))
        # a generic struct that *is* its flattened member, instantiated several times in one process
        inner = self.mk("named", fields=[Field("fix_body", Ty("param", "T")), Field("fix_seq", prim("i32"))])
        inner.params = ["T"]
        inner.generics_src = "<T>"
        self.meta[inner.id] = {"role": "definition", "params": ["T"], "ts_params": ["T"], "defaults": [], "concrete": None, "lifetime": False,
                               "const": False, "uses": {"T": "bare"}, "kind": "named", "tags": [], "optional_fields": None}
        env = self.mk("named", fields=[Field("fix_inner", user(inner, Ty("param", "T")), flatten=True)])
        env.params = ["T"]
        env.generics_src = "<T>"
        env.tags.append("k:only-flattened-member-generic")
        self.meta[env.id] = {"role": "definition", "params": ["T"], "ts_params": ["T"], "defaults": [], "concrete": None, "lifetime": False,
                             "const": False, "uses": {"T": "in-generic+flatten"}, "kind": "named", "tags": list(env.tags), "optional_fields": None}
        for k, a in enumerate([self.leaves[0].name, "String", f"Vec<{self.leaves[1].name}>", "bool"]):
            self.entries.append((f"{env.id}#{k}", f"{env.name}<{a}>", [a], env, ["user" if k == 0 else "prim"]))
            self.entries.append((f"{inner.id}#{k}", f"{inner.name}<{a}>", [a], inner, ["user" if k == 0 else "prim"]))

    def param_use(self, params, p):
        r = self.r
        t = Ty("param", p)
        forms = [
            ("bare", t), ("vec", Ty("vec", args=[t])), ("option", Ty("opt", args=[t])), ("box", Ty("box", args=[t])),
            ("map-value", Ty("map", "HashMap", args=[prim("String"), t])), ("array", Ty("arr", args=[t], n=2)),
            ("tuple", Ty("tup", args=[t, prim("i32")])), ("nested", Ty("vec", args=[Ty("opt", args=[Ty("vec", args=[t])])])),
        ]
        if len(params) > 1:
            q = r.choice([x for x in params if x != p])
            forms.append(("tuple-of-two", Ty("tup", args=[t, Ty("param", q)])))
        if self.inner:
            inn = r.choice(self.inner)
            forms.append(("in-generic", user(inn, t)))
            forms.append(("in-generic-of-container", user(inn, Ty("vec", args=[t]))))
        return r.choice(forms)

    def definition(self):
        r = self.r
        nparams = r.choice([1, 1, 2, 2, 3])
        params = ["T", "U", "V"][:nparams]
        lifetime = r.random() < 0.25
        const = r.random() < 0.25
        kind = r.choice(["named", "named", "named", "tuple", "enum"])
        it = self.mk(kind)
        it.params = list(params)
        uses = {}
        fields = []
        flattened = set()
        for p in params:
            form, ty = self.param_use(params, p)
            uses[p] = form
            f = Field(f"f_{p.lower()}{self.n}", ty)
            # presentation of a generic-in-generic field
            if form.startswith("in-generic") and kind == "named":
                pres = r.choice(["name", "inline", "flatten", "flatten"])
                if pres == "inline":
                    f.inline = True
                    uses[p] += "+inline"
                elif pres == "flatten" and ty.item.kind == "named" and ty.item.id not in flattened:
                    # (the same struct flattened twice would put its keys into the object twice)
                    flattened.add(ty.item.id)
                    f.flatten = True
                    uses[p] += "+flatten"
            if form == "option" and kind == "named" and r.random() < 0.5:
                # `#[ts(optional)] f: Option<P>`: `f?: P` - also when P itself is instantiated at an Option
                f.optional = r.choice(["opt", "opt", "nullable"])
                uses[p] += "+optional"
            if form == "bare" and kind == "named" and r.random() < 0.06:
                f.inline = True
                uses[p] += "+inline-bare"
                it.tags.append("k:inline-bare-param")
            fields.append(f)
        fields.append(Field(f"plain{self.n}", r.choice([prim("i32"), prim("String"), user(self.dep), Ty("vec", args=[user(self.dep)])])))
        if lifetime:
            fields.append(Field(f"life{self.n}", raw(r.choice(["&'a str", "std::borrow::Cow<'a, str>", "Vec<&'a str>"]))))
        if const:
            fields.append(Field(f"arr{self.n}", raw(r.choice(["[u8; N]", "[i32; N]"]))))
        r.shuffle(fields)
        if kind == "named":
            it.fields = fields
            flat = [f for f in fields if f.flatten]
            if flat and nparams == 1 and not lifetime and not const and r.random() < 0.5:
                # the flattened member is all there is (the struct *is* its flattened field)
                it.fields = flat[:1]
                it.tags.append("k:only-flattened-member-generic")
            if r.random() < 0.15:
                it.optional_fields = r.choice(["opt", "nullable"])
                it.tags.append("k:optional-fields-generic")
            if r.random() < 0.2:
                it.rename_all = "camelCase"
        elif kind == "tuple":
            for f in fields:
                f.name = None
                f.flatten = False
            it.fields = fields
        else:
            vs = []
            for j, f in enumerate(fields):
                f.flatten = False
                vk = r.choice(["newtype", "struct", "tuple"])
                if vk == "newtype":
                    f.name = None
                    vs.append(Variant(f"V{self.n}x{j}", "newtype", [f]))
                elif vk == "struct":
                    vs.append(Variant(f"V{self.n}x{j}", "struct", [f]))
                else:
                    f.name = None
                    vs.append(Variant(f"V{self.n}x{j}", "tuple", [f, Field(None, prim("bool"))]))
            vs.append(Variant(f"V{self.n}unit", "unit"))
            it.variants = vs
            rep = r.choice(["external", "adjacent", "untagged", "internal"])
            if rep == "internal":
                # (no tuple variants in an internally tagged enum)
                for v in vs:
                    if v.kind == "tuple":
                        v.kind, v.fields = "newtype", v.fields[:1]
                it.tag = "t"
            elif rep == "adjacent":
                it.tag, it.content = "t", "c"
            elif rep == "untagged":
                it.untagged = True
        # defaults and concrete
        default_ts = {}
        if r.random() < 0.35 and not const:     # (a defaulted type parameter cannot be followed by a const parameter without default)
            last = params[-1]
            d = r.choice([prim("String"), user(self.dep), Ty("vec", args=[prim("u8")]), Ty("opt", args=[user(self.dep)])])
            if nparams >= 2 and r.random() < 0.45:
                # a default may mention an earlier parameter: `struct Paged<T, P = Vec<T>>`
                e = Ty("param", params[0])
                d = r.choice([Ty("vec", args=[e]), Ty("opt", args=[e]), e, Ty("map", "HashMap", args=[prim("String"), e])])
                it.tags.append("default-mentions-parameter")
            it.param_defaults[last] = d.rs()
            it.param_default_tys = {last: d}
        concrete = None
        if nparams >= 2 and r.random() < 0.32:
            # (also a parameter that has a Rust default: `concrete(P = X)` on `P = D`)
            concrete = r.choice(params)
            if concrete:
                it.concrete = {concrete: r.choice(["i32", "String", "Vec<bool>"])}
                if nparams >= 2 and r.random() < 0.5:
                    # two concrete parameters, in one attribute or in one attribute each
                    other = r.choice([p for p in params if p != concrete])
                    it.concrete[other] = r.choice(["i32", "String", "Vec<bool>"])
                    # in one `concrete(..)`, in one attribute each, or as two `concrete(..)` keys of one attribute
                    it.concrete_split = r.choice([False, True, True, "same-list"])
        if "default-mentions-parameter" in it.tags and params[0] in it.concrete:
            it.tags.append("k:default-mentions-concretised-parameter")
        # generics text
        parts = []
        if lifetime:
            parts.append("'a")
        for p in params:
            parts.append(f"{p} = {it.param_defaults[p]}" if p in it.param_defaults else p)
        if const:
            # (a const parameter may carry a default; the instantiations below pass 3, never the default)
            parts.append("const N: usize = 2" if r.random() < 0.5 else "const N: usize")
        it.generics_src = "<" + ", ".join(parts) + ">"
        if r.random() < 0.15 and any(True for _ in it.all_fields()):
            # declared through macro_rules!: every field type reaches the derive as a `$t:ty` fragment
            it.via_macro = True if (it.concrete or r.random() < 0.6) else "tymacro"
            it.tags.append("k:declared-by-macro" if it.via_macro is True else "k:field-types-are-macro-invocations")
        ts_params = [p for p in params if p not in it.concrete]
        self.meta[it.id] = {"role": "definition", "params": params, "ts_params": ts_params, "defaults": list(it.param_defaults),
                            "concrete": sorted(it.concrete) or None, "lifetime": lifetime, "const": const, "uses": uses, "kind": kind,
                            "tags": list(it.tags), "optional_fields": it.optional_fields}
        if nparams == 1 and not lifetime and not const and kind == "named" and not it.param_defaults and not it.optional_fields \
                and not any(f.inline or f.flatten for f in fields):
            self.inner.append(it)
        # instantiations
        arg_pool = [("prim", "i32"), ("prim", "String"), ("prim", "bool"), ("prim", "u64"), ("container", "Vec<u8>"),
                    ("container", "Option<i32>"), ("container", "std::collections::HashMap<String, bool>"), ("container", "(i32, String)"),
                    ("container", "Result<i32, String>"), ("container", "Option<Vec<String>>"),
                    ("user", self.leaves[0].name), ("user", self.leaves[1].name), ("user", f"Vec<{self.leaves[2].name}>")]
        if self.inner:
            arg_pool.append(("generic", f"{self.r.choice(self.inner).name}<{self.leaves[0].name}>"))
        if any("inline-bare" in u for u in uses.values()):
            # `(A, B)::inline()` is documented to panic ("tuple cannot be inlined")
            arg_pool = [a for a in arg_pool if not a[1].startswith("(")]
        for k in range(4 if r.random() < 0.7 else 6):
            args = []
            kinds = []
            for p in params:
                ak, a = r.choice(arg_pool)
                if k == 0:
                    ak, a = "user", self.leaves[(params.index(p)) % 3].name      # always one instantiation with arg-only leaves
                if k == 1 and "+optional" in uses.get(p, ""):
                    ak, a = "container", r.choice(["Option<i32>", "Option<Vec<String>>", f"Option<{self.leaves[0].name}>"])
                if p in it.concrete:
                    # `concrete(U = X)` promises that U is X: only that instantiation is meaningful
                    # (the type still implements TS for every other argument, and its declaration has to stay the same text:
                    # some instantiations pass another argument; they take part in the comparisons of texts only)
                    if k >= 2 and (k + len(it.id) + params.index(p)) % 2 == 0 and a != it.concrete[p]:
                        ak = "off-concrete"
                    else:
                        ak, a = "concrete", it.concrete[p]
                args.append(a)
                kinds.append(ak)
            full = (["'static"] if lifetime else []) + args + (["3"] if const else [])
            rust = f"{it.name}<{', '.join(full)}>"
            ts_args = [a for p, a in zip(params, args) if p not in it.concrete]
            self.entries.append((f"{it.id}#{k}", rust, ts_args, it, kinds))
        return it

    def source(self):
        import tsgen
        out = [tsgen.HEADER]
        for it in self.items:
            out.append(f"// @item {it.id}")
            out.append(tsgen.emit_item(it))
            out.append("")
        out.append("// @item __registry")
        out.append("pub fn registry() -> Vec<TypeEntry> {\n    vec![")
        for it in self.items:
            if not it.params:
                out.append(f"        TypeEntry::ts::<{it.name}>({tsgen.rs_str(it.id)}, {tsgen.rs_str(it.name)}), // @entry {it.id}")
        for eid, rust, ts_args, it, _k in self.entries:
            names = ", ".join(f"<{a} as TS>::name as fn() -> String" for a in ts_args)
            out.append(f"        TypeEntry::ts::<{rust}>({tsgen.rs_str(eid)}, {tsgen.rs_str(rust)}).args(vec![{names}]), // @entry {eid}")
        out.append("    ]\n}\n")
        out.append("fn main() {\n    vsupport::run(registry());\n}\n")
        return "\n".join(out)
