"""Hand-minimised fixed inputs: one per known finding and per repaired defect, so that the
corresponding check exercises them on every run, whatever the seed."""
from tsgen import Field, Gen, Item, Profile, Ty, Variant, prim

DERIVES = ["Clone", "Debug", "Serialize", "Deserialize", "TS", "Samples"]


def user(it, *args):
    return Ty("user", item=it, args=list(args))


def sem_fixed():
    g = Gen(0, "Fx", Profile())
    items = []

    def add(it):
        it.derives = list(DERIVES)
        items.append(it)
        return it

    # KF: flatten of an externally tagged enum that has a unit variant
    e1 = add(Item("FxUnitEnum", "FxUnitEnum", "enum", variants=[
        Variant("FxA", "unit"), Variant("FxB", "struct", [Field("fx_b1", prim("i32"))])]))
    add(Item("FxFlatUnit", "FxFlatUnit", "named", fields=[
        Field("fx_own", prim("i32")), Field("fx_flat", user(e1), flatten=True)]))
    # KF: internally tagged newtype variant wrapping a map, spliced into a struct
    e2 = add(Item("FxIntMap", "FxIntMap", "enum", tag="fxt", variants=[
        Variant("FxH", "newtype", [Field(None, Ty("map", "BTreeMap", args=[prim("String"), prim("i32")]))]),
        Variant("FxS", "struct", [Field("fx_s1", prim("bool"))])]))
    add(Item("FxInlineIntMap", "FxInlineIntMap", "named", fields=[
        Field("fx_p", prim("i32")), Field("fx_e", user(e2), inline=True)]))
    add(Item("FxFlatIntMap", "FxFlatIntMap", "named", fields=[
        Field("fx_q", prim("i32")), Field("fx_f", user(e2), flatten=True)]))
    # fixed: untagged struct variant inside an internally tagged enum
    add(Item("FxUntaggedInInternal", "FxUntaggedInInternal", "enum", tag="fxu", variants=[
        Variant("FxT", "struct", [Field("fx_t1", prim("i32"))]),
        Variant("FxU", "struct", [Field("fx_u1", prim("String"))], untagged=True)]))
    # fixed: flatten of a struct without fields
    s0 = add(Item("FxEmpty", "FxEmpty", "named"))
    add(Item("FxFlatEmpty", "FxFlatEmpty", "named", fields=[
        Field("fx_k", prim("u8")), Field("fx_z", user(s0), flatten=True)]))
    add(Item("FxOnlyFlatEmpty", "FxOnlyFlatEmpty", "named", fields=[Field("fx_z2", user(s0), flatten=True)]))
    # fixed: #[ts(inline)] on a newtype variant's field in adjacently / internally tagged enums
    s1 = add(Item("FxInner", "FxInner", "named", fields=[Field("fx_i1", prim("u8"))]))
    add(Item("FxAdjInline", "FxAdjInline", "enum", tag="fxa", content="fxc", variants=[
        Variant("FxN", "newtype", [Field(None, user(s1), inline=True)])]))
    add(Item("FxIntInline", "FxIntInline", "enum", tag="fxi", variants=[
        Variant("FxM", "newtype", [Field(None, user(s1), inline=True)]), Variant("FxO", "unit")]))
    # internally tagged enum whose struct variants are renamed to strings that need escaping
    add(Item("FxQuotedVariants", "FxQuotedVariants", "enum", tag="fxkind", variants=[
        Variant("FxSay", "struct", [Field("fx_text", prim("String"))], rename='say "hi"'),
        Variant("FxBack", "struct", [Field("fx_n", prim("i32"))], rename="back\\slash"),
        Variant("FxUnitQ", "unit", rename='a "unit"'),
        Variant("FxPlainV", "struct", [Field("fx_p", prim("bool"))])]))
    # a struct with optional_fields whose field is a newtype over an Option: the key stays required (serde demands it)
    nick = add(Item("FxNick", "FxNick", "newtype", fields=[Field(None, Ty("opt", args=[prim("String")]))]))
    opt_struct = add(Item("FxOptFieldsNewtype", "FxOptFieldsNewtype", "named", optional_fields="opt", fields=[
        Field("fx_id", prim("i32")), Field("fx_nick", user(nick)),
        Field("fx_bio", Ty("opt", args=[prim("String")]), extra_attrs=['#[serde(skip_serializing_if = "Option::is_none")]'])]))
    # ... and whose fields are transparent wrappers around an Option: no Option themselves, so required and nullable
    add(Item("FxOptFieldsWrapped", "FxOptFieldsWrapped", "named", optional_fields="opt", fields=[
        Field("fx_boxed", Ty("box", args=[Ty("opt", args=[prim("i32")])])),
        Field("fx_boxed2", Ty("box", args=[Ty("box", args=[Ty("opt", args=[prim("String")])])])),
        Field("fx_plain", Ty("opt", args=[prim("bool")]), extra_attrs=['#[serde(skip_serializing_if = "Option::is_none")]'])]))
    # inlined fixed-size arrays keep their length (9..=32: beyond every length the suite uses, inside serde's impls)
    rgb = add(Item("FxRgb", "FxRgb", "named", fields=[Field("fx_r", prim("u8")), Field("fx_g", prim("u8"))]))
    add(Item("FxInlineArrays", "FxInlineArrays", "named", fields=[
        Field("fx_cells", Ty("arr", args=[user(rgb)], n=12), inline=True),
        Field("fx_rows", Ty("vec", args=[Ty("arr", args=[prim("u8")], n=9)]), inline=True),
        Field("fx_wide", Ty("opt", args=[Ty("arr", args=[prim("bool")], n=32)]), inline=True)]))
    # struct variants of an internally tagged enum (and a tagged struct) that consist of flattened members only still carry the tag
    pt = add(Item("FxPoint", "FxPoint", "named", fields=[Field("fx_x", prim("i32")), Field("fx_y", prim("i32"))]))
    add(Item("FxShapeFlatOnly", "FxShapeFlatOnly", "enum", tag="fx_kind", variants=[
        Variant("FxAt", "struct", [Field("fx_at", user(pt), flatten=True)]),
        Variant("FxCircle", "struct", [Field("fx_r", prim("i32"))])]))
    add(Item("FxTaggedFlatOnly", "FxTaggedFlatOnly", "named", tag="fx_t", fields=[Field("fx_p", user(pt), flatten=True)]))
    # a rename rule over fields declared after a flattened one
    add(Item("FxSprite", "FxSprite", "named", rename_all="camelCase", fields=[
        Field("fx_sprite_id", prim("u32")), Field("fx_screen_position", user(pt), flatten=True),
        Field("fx_z_index", prim("i32")), Field("fx_is_visible", prim("bool"))]))
    add(Item("FxSpriteEvent", "FxSpriteEvent", "enum", rename_all_fields="SCREAMING-KEBAB-CASE", variants=[
        Variant("FxMoved", "struct", [Field("fx_where_to", user(pt), flatten=True), Field("fx_moved_by", prim("String")), Field("fx_at_time", prim("u32"))]),
        Variant("FxGone", "unit")]))
    # a serde key ts-rs has no use for, written without a value directly in front of keys it uses (one list)
    it = add(Item("FxFlagBeforeKey", "FxFlagBeforeKey", "enum", variants=[
        Variant("FxCircle", "struct", [Field("fx_radius", prim("u8"))]), Variant("FxUnitSquare", "unit")]))
    it.extra_attrs.append('#[serde(deny_unknown_fields, tag = "fx_kind", rename_all = "snake_case")]')
    add(Item("FxFlagBeforeRename", "FxFlagBeforeRename", "named", fields=[
        Field("fx_identifier", prim("u32"), extra_attrs=['#[serde(skip_deserializing, rename = "fx_id")]']),
        Field("fx_other_one", prim("bool"))],
        extra_attrs=['#[serde(deny_unknown_fields, rename_all = "UPPERCASE")]']))
    # a string literal that looks like the start of a comment, inside the first of two flattened enums of an only-flattened member
    em = add(Item("FxMimeA", "FxMimeA", "enum", variants=[
        Variant("FxImg", "struct", [Field("fx_w", prim("i32"))], rename="image/*"), Variant("FxTxt", "struct", [Field("fx_t", prim("bool"))], rename="text/*")]))
    en = add(Item("FxMimeB", "FxMimeB", "enum", variants=[
        Variant("FxK1", "struct", [Field("fx_k1", prim("String"))]), Variant("FxK2", "struct", [Field("fx_k2", prim("u8"))])]))
    mm = add(Item("FxMimeBoth", "FxMimeBoth", "named", fields=[Field("fx_ma", user(em), flatten=True), Field("fx_mb", user(en), flatten=True)]))
    add(Item("FxOnlyFlatMime", "FxOnlyFlatMime", "named", fields=[Field("fx_only", user(mm), flatten=True)]))
    # KF: serde's catch-all for unknown keys, a flattened map
    fm = Field("fx_extra", Ty("map", "BTreeMap", args=[prim("String"), prim("i32")]), flatten=True)
    fm.tags.append("k:flatten-map")
    add(Item("FxFlatMap", "FxFlatMap", "named", fields=[Field("fx_known", prim("bool")), fm]))
    # KF: `#[ts(optional)]` without serde's `skip_serializing_if`: `None` is written as `null`, the binding says `fx_o?: number`
    fo = Field("fx_o", Ty("opt", args=[prim("i32")]), extra_attrs=["#[ts(optional)]"])
    fo.tags.append("k:optional-without-skip-serializing-if")
    add(Item("FxOptionalNoSkip", "FxOptionalNoSkip", "named", fields=[Field("fx_req", prim("bool")), fo]))
    # rename_all_fields with a struct variant that has no fields (serde accepts it)
    add(Item("FxRenameAllFieldsEmpty", "FxRenameAllFieldsEmpty", "enum", rename_all_fields="camelCase", variants=[
        Variant("FxEmptyV", "struct", []), Variant("FxFullV", "struct", [Field("fx_x_y", prim("i32"))])]))
    # the only field flattens a struct that consists of two flattened enums: `(A | B) & (C | D)` must keep its parentheses
    ea = add(Item("FxEnumA", "FxEnumA", "enum", variants=[
        Variant("FxA1", "struct", [Field("fx_a1", prim("i32"))]), Variant("FxA2", "struct", [Field("fx_a2", prim("bool"))])]))
    eb = add(Item("FxEnumB", "FxEnumB", "enum", variants=[
        Variant("FxB1", "struct", [Field("fx_b1x", prim("String"))]), Variant("FxB2", "struct", [Field("fx_b2x", prim("u8"))])]))
    mid = add(Item("FxTwoEnums", "FxTwoEnums", "named", fields=[
        Field("fx_ea", user(ea), flatten=True), Field("fx_eb", user(eb), flatten=True)]))
    add(Item("FxOnlyFlatTwoEnums", "FxOnlyFlatTwoEnums", "named", fields=[Field("fx_mid", user(mid), flatten=True)]))
    add(Item("FxInlineTwoEnums", "FxInlineTwoEnums", "named", fields=[Field("fx_k2", prim("u8")), Field("fx_mid2", user(mid), inline=True)]))
    g.items = items
    g.make_entries()
    return g


def rename_fixed():
    """fixed inputs for C09's end-to-end part: a rename rule next to members that take no name of their own"""
    g = Gen(0, "Fr", Profile())
    items = []

    def add(it):
        it.derives = list(DERIVES)
        items.append(it)
        return it
    pt = add(Item("FrPoint", "FrPoint", "named", fields=[Field("fr_x_pos", prim("i32")), Field("fr_y_pos", prim("i32"))]))
    for k, rule in enumerate(["camelCase", "PascalCase", "SCREAMING_SNAKE_CASE", "kebab-case", "UPPERCASE"]):
        add(Item(f"FrSprite{k}", f"FrSprite{k}", "named", rename_all=rule, fields=[
            Field("fr_sprite_id", prim("u32")), Field("fr_screen_position", user(pt), flatten=True),
            Field("fr_z_index", prim("i32")), Field("fr_is_visible", prim("bool"))]))
        add(Item(f"FrSkipFirst{k}", f"FrSkipFirst{k}", "named", rename_all=rule, fields=[
            Field("fr_hidden_one", prim("u8"), skip=True), Field("fr_shown_one", prim("i32")), Field("fr_shown_two", prim("bool"))]))
        add(Item(f"FrRenamedFirst{k}", f"FrRenamedFirst{k}", "named", rename_all=rule, fields=[
            Field("fr_first_one", prim("u8"), rename="explicit_name"), Field("fr_second_one", prim("i32")),
            Field("fr_third_one", user(pt), inline=True), Field("fr_fourth_one", prim("bool"))]))
    add(Item("FrSpriteEvent", "FrSpriteEvent", "enum", rename_all_fields="SCREAMING-KEBAB-CASE", variants=[
        Variant("FrMoved", "struct", [Field("fr_where_to", user(pt), flatten=True), Field("fr_moved_by", prim("String")), Field("fr_at_time", prim("u32"))]),
        Variant("FrGone", "unit")]))
    add(Item("FrVariantRule", "FrVariantRule", "enum", tag="fr_t", variants=[
        Variant("FrMoved", "struct", [Field("fr_skipped_one", prim("u8"), skip=True), Field("fr_where_to", user(pt), flatten=True),
                                      Field("fr_moved_by", prim("String"))], rename_all="camelCase"),
        Variant("FrGone", "unit")]))
    g.items = items
    g.make_entries()
    return g


def graph_fixed():
    """fixed inputs for the export checks (C03 / C11 / C13): one per known finding"""
    g = Gen(0, "Fg", Profile(ts_only=True, placements=True))
    items = []

    def add(it):
        it.derives = ["TS", "SerdeAttrs"]
        it.serde = False
        items.append(it)
        return it

    d = add(Item("FgDefault", "FgDefault", "named", fields=[Field("fg_d", prim("u8"))], export_to="fgd/"))
    gen = add(Item("FgGen", "FgGen", "named", params=["T"], fields=[Field("fg_t", Ty("param", "T"))]))
    gen.param_defaults = {"T": "FgDefault"}
    gen.param_default_tys = {"T": user(d)}
    add(Item("FgSplice", "FgSplice", "named", fields=[Field("fg_own", prim("i32")),
                                                     Field("fg_flat", user(gen, prim("i32")), flatten=True)]))
    e2 = add(Item("FgIntMap", "FgIntMap", "enum", tag="fgt", variants=[
        Variant("FgH", "newtype", [Field(None, Ty("map", "BTreeMap", args=[prim("String"), prim("i32")]))]),
        Variant("FgS", "struct", [Field("fg_s1", prim("bool"))])]))
    add(Item("FgInlineIntMap", "FgInlineIntMap", "named", fields=[Field("fg_p", prim("i32")), Field("fg_e", user(e2), inline=True)],
             export_to="fgshared/x.ts"))
    # parallel directory trees that share a directory name after they diverge
    cust = add(Item("FgCustomer", "FgCustomer", "named", fields=[Field("fg_c", prim("u8"))], export_to="fgv2/models/"))
    extra = add(Item("FgExtra", "FgExtra", "named", fields=[Field("fg_x", prim("bool"))], export_to="fgv2/models/extra/"))
    add(Item("FgOrder", "FgOrder", "named", fields=[Field("fg_cust", user(cust)), Field("fg_extra", Ty("vec", args=[user(extra)]))],
             export_to="fgv1/models/"))
    # an `export_to` that names a file without an extension is taken verbatim
    plain = add(Item("FgPlainDep", "FgPlainDep", "named", fields=[Field("fg_pd", prim("i32"))], export_to="fgplain/dep_bindings"))
    # (nothing imports them: an import specifier cannot name a file without the `.ts` extension)
    add(Item("FgPlainUser", "FgPlainUser", "named", fields=[Field("fg_pu", user(cust))], export_to="fgplain/nested/index"))
    # string literals that look like the start of a comment, in an only-flattened member made of two enums
    gm = add(Item("FgMimeA", "FgMimeA", "enum", variants=[
        Variant("FgImg", "struct", [Field("fg_w", prim("i32"))], rename="image/*"), Variant("FgTxt", "struct", [Field("fg_t", prim("bool"))])]))
    gn = add(Item("FgMimeB", "FgMimeB", "enum", variants=[
        Variant("FgK1", "struct", [Field("fg_k1", prim("String"))]), Variant("FgK2", "struct", [Field("fg_k2", prim("u8"))])]))
    gmm = add(Item("FgMimeBoth", "FgMimeBoth", "named", fields=[Field("fg_ma", user(gm), flatten=True), Field("fg_mb", user(gn), flatten=True)]))
    add(Item("FgOnlyFlatMime", "FgOnlyFlatMime", "named", fields=[Field("fg_only", user(gmm), flatten=True)]))
    # a file importing from a file of the same name in a directory below it
    low = add(Item("FgTypesLow", "FgTypesLow", "named", fields=[Field("fg_low", prim("u8"))], export_to="fgapi/v2/types.ts"))
    add(Item("FgTypesTop", "FgTypesTop", "named", fields=[Field("fg_top", user(low)), Field("fg_more", Ty("vec", args=[user(low)]))],
             export_to="fgapi/types.ts"))
    # ... and from a file of the same name next to it
    side = add(Item("FgTypesSide", "FgTypesSide", "named", fields=[Field("fg_side", prim("bool"))], export_to="fgapi2/types.ts"))
    add(Item("FgTypesUser", "FgTypesUser", "named", fields=[Field("fg_s", user(side)), Field("fg_l", user(low))], export_to="fgapi/v2/x/types.ts"))
    # enums whose variants are all skipped (declared `never`) keep their `export_to`, directory form and file form
    sk1 = add(Item("FgAllSkippedDir", "FgAllSkippedDir", "enum", variants=[
        Variant("FgSk1", "unit", skip=True), Variant("FgSk2", "newtype", [Field(None, prim("i32"))], skip=True)], export_to="fgskip/nested/"))
    sk2 = add(Item("FgAllSkippedFile", "FgAllSkippedFile", "enum", variants=[Variant("FgSk3", "unit", skip=True)], export_to="fgskip/file/renamed.ts"))
    add(Item("FgSkipUser", "FgSkipUser", "named", fields=[Field("fg_sk1", user(sk1)), Field("fg_sk2", Ty("opt", args=[user(sk2)]))],
             export_to="fgskip/nested/"))
    # a concretised parameter that has a Rust default: neither the parameter nor its default is part of the declaration
    kel = add(Item("FgKelvin", "FgKelvin", "named", fields=[Field("fg_k", prim("f32"))], export_to="fgunits/"))
    cel = add(Item("FgCelsius", "FgCelsius", "named", fields=[Field("fg_c", prim("f32"))], export_to="fgunits/"))
    lab = add(Item("FgLabel", "FgLabel", "named", fields=[Field("fg_l", prim("String"))]))
    rd = add(Item("FgReading", "FgReading", "named", params=["U", "L"],
                  fields=[Field("fg_value", Ty("param", "U")), Field("fg_label", Ty("param", "L")), Field("fg_at", prim("u32"))]))
    rd.param_defaults = {"U": "FgKelvin", "L": "FgLabel"}
    rd.param_default_tys = {"U": user(kel), "L": user(lab)}
    rd.concrete = {"U": "FgCelsius"}
    rd.fixed_args = [user(cel), user(lab)]
    # the default of a parameter is also the type of an inlined / flattened field: the declaration still names it (`T = FgMeta`)
    meta = add(Item("FgMeta", "FgMeta", "named", fields=[Field("fg_rev", prim("u32"))], export_to="fgmeta/"))
    pg = add(Item("FgPage", "FgPage", "named", params=["T"],
                  fields=[Field("fg_meta", user(meta), inline=True), Field("fg_items", Ty("vec", args=[Ty("param", "T")]))]))
    pg.param_defaults = {"T": "FgMeta"}
    pg.param_default_tys = {"T": user(meta)}
    pg.fixed_args = [prim("u8")]
    meta2 = add(Item("FgMeta2", "FgMeta2", "named", fields=[Field("fg_rev2", prim("u32"))], export_to="fgmeta/"))
    ev = add(Item("FgEnvelope", "FgEnvelope", "named", params=["T"],
                  fields=[Field("fg_meta2", user(meta2), flatten=True), Field("fg_body", Ty("param", "T"))]))
    ev.param_defaults = {"T": "FgMeta2"}
    ev.param_default_tys = {"T": user(meta2)}
    ev.fixed_args = [prim("bool")]
    # a file without extension next to a file of the same name with `.ts`: two files, the one imports from the other
    dts = add(Item("FgSameStemDep", "FgSameStemDep", "named", fields=[Field("fg_id", prim("i32"))], export_to="fgstem/Dep.ts"))
    add(Item("FgSameStemHolder", "FgSameStemHolder", "named", fields=[Field("fg_dep", user(dts))], export_to="fgstem/Dep"))
    # inlined maps: what the (inlined) key and value types mention is a dependency of the root
    unit = add(Item("FgMapUnit", "FgMapUnit", "named", fields=[Field("fg_sym", prim("String"))], export_to="fgmapunits/"))
    price = add(Item("FgMapPrice", "FgMapPrice", "named", fields=[Field("fg_amount", prim("u32")), Field("fg_unit", user(unit))]))
    unit2 = add(Item("FgMapUnit2", "FgMapUnit2", "named", fields=[Field("fg_sym2", prim("String"))]))
    price2 = add(Item("FgMapPrice2", "FgMapPrice2", "named", fields=[Field("fg_unit2", Ty("vec", args=[user(unit2)]))]))
    add(Item("FgMapCatalogue", "FgMapCatalogue", "named", fields=[
        Field("fg_prices", Ty("map", "HashMap", args=[prim("String"), user(price)]), inline=True),
        Field("fg_sorted", Ty("opt", args=[Ty("vec", args=[Ty("map", "BTreeMap", args=[prim("String"), user(price2)])])]), inline=True)]))
    # one type named by one variant and flattened / inlined by a later one
    addr = add(Item("FgEvAddress", "FgEvAddress", "named", fields=[Field("fg_street", prim("String"))]))
    usr = add(Item("FgEvUser", "FgEvUser", "named", fields=[Field("fg_name", prim("String")), Field("fg_addr", user(addr))], export_to="fgev/"))
    add(Item("FgEvent", "FgEvent", "enum", variants=[
        Variant("FgCreated", "newtype", [Field(None, user(usr))]),
        Variant("FgUpdated", "struct", [Field("fg_user", user(usr), flatten=True), Field("fg_at", prim("u32"))])]))
    usr2 = add(Item("FgEvUser2", "FgEvUser2", "named", fields=[Field("fg_name2", prim("String")), Field("fg_addr2", user(addr))], export_to="fgev/"))
    add(Item("FgMessage", "FgMessage", "enum", variants=[
        Variant("FgFrom", "struct", [Field("fg_who", user(usr2))]),
        Variant("FgEcho", "struct", [Field("fg_whom", user(usr2), inline=True)])]))
    # directories and files whose name starts with a dot, imported from the directory that holds them
    leaf = add(Item("FgDotLeaf", "FgDotLeaf", "named", fields=[Field("fg_dl", prim("u8"))], export_to="fgdot/.generated/"))
    hid = add(Item("FgDotHidden", "FgDotHidden", "named", fields=[Field("fg_dh", prim("u8"))], export_to="fgdot/.hidden.ts"))
    add(Item("FgDotRoot", "FgDotRoot", "named", fields=[Field("fg_leaf", user(leaf)), Field("fg_hid", Ty("vec", args=[user(hid)]))], export_to="fgdot/"))
    # dependencies whose files differ only in letter case (two files wherever file names are case-sensitive)
    c1 = add(Item("FgCaseId", "FgCaseId", "named", fields=[Field("fg_c1", prim("u8"))], export_to="fgcase/"))
    c2 = add(Item("FgCaseID", "FgCaseID", "named", fields=[Field("fg_c2", prim("u8"))], export_to="fgcase/"))
    c3 = add(Item("FgCaseUnit", "FgCaseUnit", "named", fields=[Field("fg_c3", prim("u8"))], export_to="fgcase/geo/Unit.ts"))
    c4 = add(Item("FgCaseUnit2", "FgCaseUnit2", "named", fields=[Field("fg_c4", prim("u8"))], export_to="fgcase/Geo/UNIT.ts"))
    add(Item("FgCaseHolder", "FgCaseHolder", "named", fields=[Field("fg_a", user(c1)), Field("fg_b", user(c2)), Field("fg_c", user(c3)), Field("fg_d", user(c4))],
             export_to="fgcase/"))
    # two types of one file that import different names from one other file (the union of the import lines per path)
    ia = add(Item("FgImpA", "FgImpA", "named", fields=[Field("fg_ia", prim("u8"))], export_to="fgimp/m.ts"))
    ib = add(Item("FgImpB", "FgImpB", "named", fields=[Field("fg_ib", prim("u8"))], export_to="fgimp/m.ts"))
    ic = add(Item("FgImpC", "FgImpC", "named", fields=[Field("fg_ic", prim("u8"))], export_to="fgimp/m.ts"))
    ua = add(Item("FgImpUserA", "FgImpUserA", "named", fields=[Field("fg_ua", user(ia))], export_to="fgimp/s.ts"))
    ub = add(Item("FgImpUserB", "FgImpUserB", "named", fields=[Field("fg_ub", user(ib)), Field("fg_ub2", Ty("opt", args=[user(ic)]))], export_to="fgimp/s.ts"))
    uc = add(Item("FgImpUserC", "FgImpUserC", "named", fields=[Field("fg_uc", Ty("vec", args=[user(ic)]))], export_to="fgimp/s.ts"))
    add(Item("FgImpRoot", "FgImpRoot", "named", fields=[Field("fg_r1", user(ua)), Field("fg_r2", user(ub)), Field("fg_r3", user(uc))]))
    # directory names that need escaping inside the import statement's string literal
    qd = add(Item("FgQuoteDep", "FgQuoteDep", "named", fields=[Field("fg_q", prim("u8"))], export_to='fg"quo"te/'))
    bd = add(Item("FgBackslashDep", "FgBackslashDep", "named", fields=[Field("fg_b", prim("u8"))], export_to="fgback\\slash/n.ts"))
    add(Item("FgQuoteUser", "FgQuoteUser", "named", fields=[Field("fg_qd", user(qd)), Field("fg_bd", Ty("opt", args=[user(bd)]))], export_to="fgquoteuser/"))
    # ... and both in one file with a third type, so that the statements go through the merge
    add(Item("FgQuoteUser2", "FgQuoteUser2", "named", fields=[Field("fg_qd2", user(qd)), Field("fg_c2", user(cust))], export_to="fgquoteuser/shared.ts"))
    add(Item("FgQuoteUser3", "FgQuoteUser3", "named", fields=[Field("fg_bd3", user(bd)), Field("fg_qd3", Ty("vec", args=[user(qd)]))], export_to="fgquoteuser/shared.ts"))
    add(Item("FgQuoteHolder", "FgQuoteHolder", "named", fields=[Field("fg_h2", Ty("user", item=items[-2])), Field("fg_h3", Ty("user", item=items[-1]))]))
    g.items = items
    g.make_entries(per_generic=1)
    # instantiations the cases prescribe
    g.entries = [(eid, it, getattr(it, "fixed_args", args)) for eid, it, args in g.entries]
    return g
