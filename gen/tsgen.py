"""Program generator: typed IR of Rust items -> Rust source + metadata.

The generator only emits programs that serde_derive accepts and on which the statement of the
properties is meaningful (DESIGN.md Appendix A).  Everything it emits carries *tags* (feature
signature) so that monitors can report coverage and build finding keys.
"""
import random
from dataclasses import dataclass, field as dfield
from typing import List, Optional, Dict

RULES = ["lowercase", "UPPERCASE", "camelCase", "snake_case", "PascalCase",
         "SCREAMING_SNAKE_CASE", "kebab-case", "SCREAMING-KEBAB-CASE"]

WORDS = ["alpha", "beta", "gamma", "delta", "omega", "item", "count", "name", "value", "kind",
         "state", "index", "total", "flag", "data", "node", "left", "right", "inner", "outer"]

INT_PRIMS = ["u8", "i8", "u16", "i16", "u32", "i32", "u64", "i64", "usize", "isize"]
BIG_PRIMS = ["u128", "i128"]
OTHER_PRIMS = ["bool", "String", "char", "f32", "f64", "()"]
KEY_PRIMS = ["String", "u8", "i16", "u32", "i64", "char", "bool", "u64"]


# ---------------------------------------------------------------------------------------------
# type expressions

@dataclass
class Ty:
    kind: str                      # prim opt vec arr tup map box user param self
    name: str = ""                 # prim name / param name / map kind
    args: List["Ty"] = dfield(default_factory=list)
    n: int = 0                     # array length
    item: Optional["Item"] = None  # user

    def rs(self, self_name=None) -> str:
        k = self.kind
        if k in ("prim", "raw", "alias"):
            return self.name
        if k == "param":
            return self.name
        if k == "self":
            return self_name or "Self"
        if k == "opt":
            return f"Option<{self.args[0].rs(self_name)}>"
        if k == "vec":
            return f"Vec<{self.args[0].rs(self_name)}>"
        if k == "box":
            return f"Box<{self.args[0].rs(self_name)}>"
        if k == "arr":
            return f"[{self.args[0].rs(self_name)}; {self.n}]"
        if k == "tup":
            inner = ", ".join(a.rs(self_name) for a in self.args)
            return f"({inner},)" if len(self.args) == 1 else f"({inner})"
        if k == "map":
            return f"{self.name}<{self.args[0].rs(self_name)}, {self.args[1].rs(self_name)}>"
        if k == "user":
            if self.args:
                return f"{self.item.name}<{', '.join(a.rs(self_name) for a in self.args)}>"
            return self.item.name
        raise ValueError(k)

    def resolved(self):
        """the type with top-level aliases looked through"""
        t = self
        while t.kind == "alias":
            t = t.args[0]
        return t

    def walk(self):
        yield self
        for a in self.args:
            yield from a.walk()

    def users(self):
        return [t.item for t in self.walk() if t.kind == "user"]

    def has(self, kind):
        return any(t.kind == kind for t in self.walk())

    def tag(self) -> str:
        k = self.kind
        if k in ("prim", "raw"):
            return self.name
        if k == "alias":
            return "alias>" + self.args[0].tag()
        if k in ("param", "self"):
            return k
        if k == "user":
            return "user:" + self.item.shape_tag() + ("<>" if self.args else "")
        if k == "map":
            return f"map[{self.args[0].tag()}]"
        if k == "arr":
            return f"arr{self.n}"
        return k


def prim(n):
    return Ty("prim", n)


def flat_closure(item):
    """ids of the item and of everything flattened (transitively) into it"""
    out = {item.id}
    for f in item.all_fields():
        if f.flatten:
            for u in f.ty.users():
                out |= flat_closure(u)
    # a newtype variant of an internally tagged or untagged enum puts its content's keys at the enum's own level
    if item.kind == "enum":
        for v in item.variants:
            if v.kind == "newtype" and (v.untagged or item.untagged or (item.tag and not item.content)):
                for f in v.fields:
                    for u in f.ty.users():
                        if u.id not in out:
                            out |= flat_closure(u)
    return out


# ---------------------------------------------------------------------------------------------
# items

@dataclass
class Field:
    name: Optional[str]            # None for tuple fields
    ty: Ty
    rename: Optional[str] = None
    skip: bool = False
    flatten: bool = False
    inline: bool = False
    optional: Optional[str] = None  # None | "opt" | "nullable"
    default: bool = False
    as_: Optional[str] = None
    as_ty: Optional["Ty"] = None    # `as` another type of the corpus (ts-only corpora): what the binding is made from
    type_: Optional[str] = None
    docs: List[str] = dfield(default_factory=list)
    extra_attrs: List[str] = dfield(default_factory=list)
    tags: List[str] = dfield(default_factory=list)

    def attrs(self, spell) -> List[str]:
        out = []
        for d in self.docs:
            out.append(d)
        if self.rename is not None:
            out.append(f'#[{spell("rename")}(rename = {rs_str(self.rename)})]')
        if self.skip:
            out.append(f'#[{spell("skip")}(skip)]')
        if self.flatten:
            out.append(f'#[{spell("flatten")}(flatten)]')
        if self.default:
            out.append('#[serde(default)]')
        if self.inline:
            out.append('#[ts(inline)]')
        if self.optional == "opt":
            out.append('#[ts(optional)]')
            out.append('#[serde(skip_serializing_if = "Option::is_none")]')
        elif self.optional == "nullable":
            out.append('#[ts(optional = nullable)]')
        if self.as_ty is not None:
            out.append(f'#[ts(as = {rs_str(self.as_ty.rs())})]')
        elif self.as_ is not None:
            out.append(f'#[ts(as = {rs_str(self.as_)})]')
        if self.type_ is not None:
            out.append(f'#[ts(type = {rs_str(self.type_)})]')
        out.extend(self.extra_attrs)
        return out


@dataclass
class Variant:
    name: str
    kind: str                       # unit newtype tuple struct
    fields: List[Field] = dfield(default_factory=list)
    rename: Optional[str] = None
    rename_all: Optional[str] = None
    skip: bool = False
    untagged: bool = False
    as_ty: Optional["Ty"] = None    # variant-level `as` (ts-only corpora): the variant is bound as a newtype variant of that type
    docs: List[str] = dfield(default_factory=list)
    extra_attrs: List[str] = dfield(default_factory=list)
    tags: List[str] = dfield(default_factory=list)


@dataclass
class Item:
    id: str
    name: str
    kind: str                       # unit newtype tuple named enum
    params: List[str] = dfield(default_factory=list)
    param_defaults: Dict[str, str] = dfield(default_factory=dict)
    generics_src: Optional[str] = None       # explicit generics text (C07), overrides params
    fields: List[Field] = dfield(default_factory=list)
    variants: List[Variant] = dfield(default_factory=list)
    rename: Optional[str] = None
    rename_all: Optional[str] = None
    rename_all_fields: Optional[str] = None
    tag: Optional[str] = None
    content: Optional[str] = None
    untagged: bool = False
    optional_fields: Optional[str] = None    # None | "opt" | "nullable"
    export_to: Optional[str] = None
    export: bool = False
    docs: List[str] = dfield(default_factory=list)
    extra_attrs: List[str] = dfield(default_factory=list)
    derives: List[str] = dfield(default_factory=list)
    recursive: bool = False
    keyable: bool = False
    tags: List[str] = dfield(default_factory=list)
    serde: bool = True
    concrete: Dict[str, str] = dfield(default_factory=dict)
    param_default_tys: Dict[str, "Ty"] = dfield(default_factory=dict)
    via_macro: bool = False                  # declared through macro_rules!, field types arrive as `$t:ty` fragments

    def shape_tag(self):
        if self.kind != "enum":
            return "struct-" + self.kind
        return "enum-" + self.repr()

    def repr(self):
        if self.untagged:
            return "untagged"
        if self.tag and self.content:
            return "adjacent"
        if self.tag:
            return "internal"
        return "external"

    def ts_name(self):
        return self.rename if self.rename is not None else self.name.replace("r#", "")

    def all_fields(self):
        if self.kind == "enum":
            for v in self.variants:
                yield from v.fields
        else:
            yield from self.fields

    def all_fields_live(self):
        """fields that reach the binding (fields of skipped variants do not)"""
        if self.kind == "enum":
            for v in self.variants:
                if v.skip:
                    continue
                if v.as_ty is not None:
                    yield Field(None, v.as_ty)      # the variant's own fields play no part in the binding
                else:
                    yield from v.fields
        else:
            yield from self.fields

    def deps(self):
        out = []
        for f in self.all_fields():
            out.extend(f.ty.users())
            if f.as_ty is not None:
                out.extend(f.as_ty.users())
        for v in self.variants:
            if v.as_ty is not None:
                out.extend(v.as_ty.users())
        for t in self.param_default_tys.values():
            out.extend(t.users())
        return out

    def feature_tags(self):
        t = [self.shape_tag()] + list(self.tags)
        if self.params:
            t.append(f"generic{len(self.params)}")
        for k in ("rename", "rename_all", "rename_all_fields", "tag", "content", "optional_fields", "export_to"):
            v = getattr(self, k)
            if v is not None:
                t.append(f"c:{k}" + (f"={v}" if k.startswith("rename_all") or k == "optional_fields" else ""))
        if self.kind == "enum":
            for v in self.variants:
                vt = f"v:{v.kind}"
                t.append(vt)
                for k in ("rename", "rename_all"):
                    if getattr(v, k) is not None:
                        t.append(f"v:{k}")
                if v.skip:
                    t.append("v:skip")
                if v.untagged:
                    t.append("v:untagged")
                t.extend(v.tags)
        for f in self.all_fields():
            t.extend(field_tags(f))
        t.extend(self.construct_tags())
        return sorted(set(t))

    def live_variants(self):
        return [v for v in self.variants if not v.skip]

    def has_unitlike_variant(self):
        """a variant whose content serializes as nothing / null"""
        for v in self.live_variants():
            if v.kind == "unit" or (v.kind in ("tuple", "struct") and not v.fields and v.kind == "tuple"):
                return True
        return False

    def construct_tags(self):
        """Named constructs known findings are keyed on (k:...)."""
        t = []
        if self.kind == "enum":
            rep = self.repr()
            for v in self.live_variants():
                eff = "untagged" if v.untagged else rep
                if eff == "internal" and v.kind == "newtype" and v.fields[0].ty.kind == "map":
                    t.append("k:internal-newtype-map")
                if eff == "internal" and v.kind == "newtype" and v.fields[0].ty.kind == "user" and v.fields[0].ty.item.kind == "enum":
                    inner = v.fields[0].ty.item
                    for w in inner.live_variants():
                        weff = "untagged" if (w.untagged or inner.untagged) else inner.repr()
                        if (weff == "external" and w.kind == "unit") or (weff == "untagged" and w.kind != "struct"):
                            # serde merges `"W": null` into the tagged object; the binding intersects with a string literal
                            t.append("k:flatten-enum-with-non-object-arm")
                if rep == "internal" and v.untagged and v.kind == "struct":
                    t.append("k:untagged-struct-variant-in-internal-enum")
        if self.optional_fields and any(f.ty.kind == "param" for f in self.fields):
            t.append("k:optional-fields-generic")
        for f in self.all_fields():
            if f.flatten or f.inline:
                for u in f.ty.walk():
                    if u.kind == "user" and any(t.users() for t in u.item.param_default_tys.values()):
                        t.append("k:splice-generic-with-default")
            fty = f.ty.args[0] if f.ty.kind == "box" else f.ty
            if f.flatten and fty.kind == "user":
                tgt = fty.item
                if tgt.kind == "named" and not tgt.fields and tgt.tag is None:
                    t.append("k:flatten-empty-struct")
                if tgt.kind == "enum":
                    for v in tgt.live_variants():
                        eff = "untagged" if (v.untagged or tgt.untagged) else tgt.repr()
                        if eff in ("external", "untagged") and v.kind != "struct":
                            # externally tagged unit -> `"V": null`, untagged non-object -> nothing mergeable
                            if v.kind == "unit" or eff == "untagged":
                                t.append("k:flatten-enum-with-non-object-arm")
        return t

    def text_children(self):
        """Items whose declaration text is spliced into this one's (flatten / inline)."""
        out = []
        for f in self.all_fields():
            if f.flatten or f.inline:
                out.extend(f.ty.users())
        return out


def field_tags(f: Field):
    t = list(f.tags)
    base = f.ty.tag()
    if f.skip:
        t.append("f:skip")
    if f.flatten:
        t.append("f:flatten>" + base)
    if f.inline:
        t.append("f:inline>" + base)
    if f.optional:
        t.append("f:optional=" + f.optional)
    if f.rename is not None:
        t.append("f:rename")
    if f.default:
        t.append("f:default")
    if f.as_ is not None or f.as_ty is not None:
        t.append("f:as" + (">user" if f.as_ty is not None else ""))
    if f.type_ is not None:
        t.append("f:type")
    t.append("t:" + base)
    for sub in f.ty.walk():
        if sub is not f.ty:
            t.append("t*:" + sub.tag())
    return t


def rs_str(s: str) -> str:
    out = ['"']
    for ch in s:
        if ch == '"':
            out.append('\\"')
        elif ch == '\\':
            out.append('\\\\')
        elif ch == '\n':
            out.append('\\n')
        elif ch == '\r':
            out.append('\\r')
        elif ch == '\t':
            out.append('\\t')
        elif ord(ch) < 0x20 or ord(ch) == 0x7f:
            out.append('\\u{%x}' % ord(ch))
        else:
            out.append(ch)
    out.append('"')
    return "".join(out)


# ---------------------------------------------------------------------------------------------
# emission

class Spelling:
    """Chooses between #[serde(X)] and #[ts(X)] for attributes both understand."""

    def __init__(self, mode="serde"):
        self.mode = mode

    def __call__(self, key):
        return self.mode


def emit_item(it: Item, spell=None, derives=None) -> str:
    if it.via_macro == "tymacro":
        # every field type is written as a macro invocation in type position (`Type::Macro` for the derive)
        return _emit_item(it, spell, derives, tyspell=lambda text: f"ty_is!({text})")
    if it.via_macro:
        return _emit_via_macro(it, spell, derives)
    return _emit_item(it, spell, derives)


def _emit_via_macro(it: Item, spell, derives) -> str:
    """The same item declared by a macro_rules! macro that receives every field type as a `ty` fragment
    (the derive then sees `Type::Group` nodes instead of plain paths)."""
    tys = []

    def frag(text):
        tys.append(text)
        return f"$t{len(tys) - 1}"
    body = _emit_item(it, spell, derives, tyspell=frag)
    mname = "decl_" + it.name.replace("r#", "").lower() + "_" + it.id.lower().replace("#", "_")
    pats = ", ".join(f"$t{i}:ty" for i in range(len(tys)))
    indented = "\n".join("        " + l for l in body.split("\n"))
    return (f"macro_rules! {mname} {{\n    ({pats}) => {{\n{indented}\n    }};\n}}\n"
            f"{mname}!({', '.join(tys)});")


def _emit_item(it: Item, spell=None, derives=None, tyspell=None) -> str:
    spell = spell or Spelling("serde" if it.serde else "ts")
    tyspell = tyspell or (lambda text: text)
    lines = []
    lines.extend(it.docs)
    ds = derives if derives is not None else it.derives
    lines.append(f"#[derive({', '.join(ds)})]")
    cont = []
    if it.rename is not None:
        cont.append((spell("rename"), f'rename = {rs_str(it.rename)}'))
    if it.rename_all:
        cont.append((spell("rename_all"), f'rename_all = "{it.rename_all}"'))
    if it.rename_all_fields:
        cont.append((spell("rename_all_fields"), f'rename_all_fields = "{it.rename_all_fields}"'))
    if it.tag is not None:
        cont.append((spell("tag"), f'tag = {rs_str(it.tag)}'))
    if it.content is not None:
        cont.append((spell("content"), f'content = {rs_str(it.content)}'))
    if it.untagged:
        cont.append((spell("untagged"), 'untagged'))
    for who, text in cont:
        lines.append(f"#[{who}({text})]")
    if it.optional_fields == "opt":
        lines.append("#[ts(optional_fields)]")
    elif it.optional_fields == "nullable":
        lines.append("#[ts(optional_fields = nullable)]")
    if it.export_to is not None:
        lines.append(f"#[ts(export_to = {rs_str(it.export_to)})]")
    if it.concrete and getattr(it, "concrete_split", False) == "same-list":
        lines.append("#[ts(" + ", ".join(f"concrete({k} = {v})" for k, v in it.concrete.items()) + ")]")
    elif it.concrete and getattr(it, "concrete_split", False):
        for k, v in it.concrete.items():
            lines.append(f"#[ts(concrete({k} = {v}))]")
    elif it.concrete:
        inner = ", ".join(f"{k} = {v}" for k, v in it.concrete.items())
        lines.append(f"#[ts(concrete({inner}))]")
    lines.extend(it.extra_attrs)
    if it.generics_src is not None:
        gen = it.generics_src
    elif it.params:
        ps = []
        for p in it.params:
            d = it.param_defaults.get(p)
            ps.append(f"{p} = {d}" if d else p)
        gen = "<" + ", ".join(ps) + ">"
    else:
        gen = ""
    self_name = it.name + (("<" + ", ".join(it.params) + ">") if it.params else "")

    def fields_named(fields, indent):
        out = []
        for f in fields:
            for a in f.attrs(spell):
                out.append(indent + a)
            out.append(f"{indent}pub {f.name}: {tyspell(f.ty.rs(self_name))},")
        return out

    def fields_unnamed(fields, pub=True):
        parts = []
        for f in fields:
            a = " ".join(f.attrs(spell))
            parts.append((a + " " if a else "") + ("pub " if pub else "") + tyspell(f.ty.rs(self_name)))
        return ", ".join(parts)

    if it.kind == "unit":
        lines.append(f"pub struct {it.name}{gen};")
    elif it.kind in ("newtype", "tuple"):
        lines.append(f"pub struct {it.name}{gen}({fields_unnamed(it.fields)});")
    elif it.kind == "named":
        lines.append(f"pub struct {it.name}{gen} {{")
        lines.extend(fields_named(it.fields, "    "))
        lines.append("}")
    elif it.kind == "enum":
        lines.append(f"pub enum {it.name}{gen} {{")
        for v in it.variants:
            for d in v.docs:
                lines.append("    " + d)
            if v.rename is not None:
                lines.append(f'    #[{spell("rename")}(rename = {rs_str(v.rename)})]')
            if v.rename_all:
                lines.append(f'    #[{spell("rename_all")}(rename_all = "{v.rename_all}")]')
            if v.skip:
                lines.append(f'    #[{spell("skip")}(skip)]')
            if v.untagged:
                lines.append(f'    #[{spell("untagged")}(untagged)]')
            if v.as_ty is not None:
                lines.append(f'    #[ts(as = {rs_str(v.as_ty.rs())})]')
            for a in v.extra_attrs:
                lines.append("    " + a)
            if v.kind == "unit":
                lines.append(f"    {v.name},")
            elif v.kind in ("newtype", "tuple"):
                inner = []
                for f in v.fields:
                    a = " ".join(f.attrs(spell))
                    inner.append((a + " " if a else "") + tyspell(f.ty.rs(self_name)))
                lines.append(f"    {v.name}({', '.join(inner)}),")
            else:
                lines.append(f"    {v.name} {{")
                for f in v.fields:
                    for a in f.attrs(spell):
                        lines.append("        " + a)
                    lines.append(f"        {f.name}: {tyspell(f.ty.rs(self_name))},")
                lines.append("    },")
        lines.append("}")
    else:
        raise ValueError(it.kind)
    return "\n".join(lines)


# ---------------------------------------------------------------------------------------------
# random generation (semantic fragment)

@dataclass
class Profile:
    max_depth: int = 3
    p_macro: float = 0.04            # items declared through a macro_rules! macro (field types as `ty` fragments)
    generics: bool = True
    flatten: bool = True
    inline: bool = True
    optional: bool = True
    overrides: bool = True
    enums: bool = True
    big_ints: bool = True
    weird_renames: bool = True
    p_attr: float = 0.35
    string_keys_only: bool = False   # C02: serde's buffered deserializers cannot parse non-string map keys
    no_char: bool = False            # C02: a tag literal that moves into a `string` position must fit every Rust leaf behind it
    weird_idents: bool = False       # C09: identifiers that do not follow Rust naming conventions
    p_rename_all: float = None
    placements: bool = False         # C03/C04/C11/C13: #[ts(export_to = ..)] placements, cycles, parameter defaults
    ts_only: bool = False            # derive only TS (+ the inert SerdeAttrs helper)
    wide: float = 0.0                # C13: probability of a struct referring to 5..9 distinct earlier items
    p_alias: float = 0.06            # a field type is written through a `type Alias = ..;` (closed types only)


class Gen:
    def __init__(self, seed: int, prefix: str, profile: Profile = None):
        self.r = random.Random(seed)
        self.prefix = prefix
        self.p = profile or Profile()
        self.items: List[Item] = []
        self.aliases: List[Ty] = []
        self.counter = 0
        self.entries = []   # (entry_id, item, [arg Ty])

    # -- names ------------------------------------------------------------------------------
    def n(self):
        self.counter += 1
        return self.counter

    def field_name(self):
        if self.p.weird_idents and self.r.random() < 0.8:
            n, p = self.n(), self.prefix.lower()
            return self.r.choice([f"{p}{n}Bar", f"{p}{n}_Foo", f"_{p}{n}", f"{p}{n}_", f"{p}{n}__x", f"{p.capitalize()}{n}oo",
                                  f"r#{p}{n}", f"{p}{n}é", f"{p}{n}_ßx", f"{p}{n}HTTPServer", f"{p}{n}_1x", f"{p}_{n}",
                                  f"{p}{n}aB_cD", f"__{p}{n}"])
        w = self.r.choice(WORDS)
        if self.r.random() < 0.4:
            w += "_" + self.r.choice(WORDS)
        return f"{self.prefix.lower()}{self.n()}_{w}"

    def variant_name(self):
        if self.p.weird_idents and self.r.random() < 0.8:
            n, p = self.n(), self.prefix.upper()
            lo = self.prefix.lower()
            return self.r.choice([f"{p}{n}_x", f"{lo}{n}lower", f"{p}{n}__y", f"_{p}{n}", f"{p}{n}é", f"{p}{n}_Foo_Bar",
                                  f"{p}{n}HTTPServer", f"{p}{n}_", f"{lo}_{n}", f"{p}{n}aB", f"r#{p}{n}", f"{p}{n}Σx"])
        w = self.r.choice(WORDS).capitalize()
        if self.r.random() < 0.4:
            w += self.r.choice(WORDS).capitalize()
        return f"{self.prefix.upper()}{self.n()}{w}"

    def wire_rename(self):
        n = self.n()
        if not self.p.weird_renames:
            return f"rn{n}"
        return self.r.choice([f"rn{n}", f"rn-{n}", f"{n}rn", f"rn {n}", f"$rn{n}", f"rn_{n}", f"Rn{n}", f"rn.{n}",
                              f'rn"{n}', f"rn\\{n}", f"rn'{n}", f"r\u00e9n{n}"])

    # -- types ------------------------------------------------------------------------------
    def leaf(self, for_c02=True):
        r = self.r.random()
        if r < 0.5:
            return prim(self.r.choice(INT_PRIMS))
        if r < 0.57 and self.p.big_ints:
            return prim(self.r.choice(BIG_PRIMS))
        p = self.r.choice(OTHER_PRIMS)
        if p == "char" and self.p.no_char:
            p = "String"
        return prim(p)

    def key_type(self):
        cands = [i for i in self.items if i.keyable]
        if cands and self.r.random() < 0.25:
            return Ty("user", item=self.r.choice(cands))
        if self.p.string_keys_only:
            return prim("String")
        return prim(self.r.choice(KEY_PRIMS))

    def user_ref(self, params, allow_recursive=True, pred=None):
        cands = [i for i in self.items if (allow_recursive or not i.recursive) and (pred is None or pred(i))]
        if not cands:
            return None
        it = self.r.choice(cands[-12:] if self.r.random() < 0.7 else cands)
        args = []
        for _ in it.params:
            args.append(self.ty(1, params, allow_self=False, allow_recursive=allow_recursive, arg_pos=True))
        return Ty("user", item=it, args=args)

    def ty(self, depth, params, allow_self=False, allow_recursive=True, arg_pos=False):
        t = self.ty_plain(depth, params, allow_self, allow_recursive, arg_pos)
        if depth > 0 and t.kind != "prim" and self.r.random() < self.p.p_alias and not t.has("param") and not t.has("self"):
            a = Ty("alias", f"Alias{self.prefix}{self.n()}", args=[t])
            self.aliases.append(a)
            return a
        return t

    def ty_plain(self, depth, params, allow_self=False, allow_recursive=True, arg_pos=False):
        r = self.r.random()
        if depth <= 0 or r < 0.30:
            if params and self.r.random() < 0.35:
                return Ty("param", self.r.choice(params))
            return self.leaf()
        if r < 0.50:
            u = self.user_ref(params, allow_recursive)
            if u is not None:
                return u
            return self.leaf()
        if r < 0.60:
            return Ty("opt", args=[self.ty(depth - 1, params, allow_self, allow_recursive)])
        if r < 0.70:
            return Ty("vec", args=[self.ty(depth - 1, params, allow_self, allow_recursive)])
        if r < 0.76:
            return Ty("arr", args=[self.ty(depth - 1, params, False, allow_recursive)], n=self.r.choice([0, 1, 2, 3]))
        if r < 0.83:
            k = self.r.choice([1, 2, 2, 3])
            return Ty("tup", args=[self.ty(depth - 1, params, False, allow_recursive) for _ in range(k)])
        if r < 0.91:
            return Ty("map", self.r.choice(["HashMap", "BTreeMap"]),
                      args=[self.key_type(), self.ty(depth - 1, params, allow_self, allow_recursive)])
        if r < 0.95:
            return Ty("box", args=[self.ty(depth - 1, params, False, allow_recursive)])
        if allow_self:
            return self.r.choice([
                Ty("opt", args=[Ty("box", args=[Ty("self")])]),
                Ty("vec", args=[Ty("self")]),
                Ty("map", "BTreeMap", args=[prim("String"), Ty("self")]),
            ])
        return self.leaf()

    # -- fields -----------------------------------------------------------------------------
    def flatten_clean(self, i: "Item"):
        """enum/struct whose every value serde flattens into keys the binding also shows as an object"""
        if i.kind == "named":
            return True
        if i.kind != "enum":
            return False
        for v in i.live_variants():
            eff = "untagged" if (v.untagged or i.untagged) else i.repr()
            if eff == "external" and v.kind == "unit":
                return False
            if eff == "untagged" and v.kind != "struct":
                return False
        return True

    def flatten_target(self, params, used):
        """`used`: item ids already spliced into the parent (wire names must stay distinct)."""
        sloppy = self.r.random() < 0.08

        def ok(i: Item):
            if i.recursive or i.kind not in ("named", "enum"):
                return False
            if not sloppy and not self.flatten_clean(i):
                return False
            return not (flat_closure(i) & used)
        t = self.user_ref(params, allow_recursive=False, pred=ok)
        if t is not None:
            used |= flat_closure(t.item)
            if self.r.random() < 0.2:
                t = Ty("box", args=[t])     # serde flattens through Box; the binding must too
        return t

    def inlineable(self, t: Ty):
        for s in t.walk():
            if s.kind in ("tup", "param", "self"):
                return False
            if s.kind == "user" and s.item.recursive:
                return False
        return True

    def named_field(self, params, depth, allow_self, in_variant=False, used=None):
        f = Field(self.field_name(), None)
        pa = self.p.p_attr
        r = self.r.random()
        if self.p.flatten and r < 0.10:
            t = self.flatten_target(params, used if used is not None else set())
            if t is not None:
                f.ty = t
                f.flatten = True
                return f
        f.ty = self.ty(depth, params, allow_self=allow_self)
        if self.r.random() < pa * 0.5:
            f.rename = self.wire_rename()
        if f.ty.kind in ("prim", "opt", "vec") and not f.ty.has("user") and not f.ty.has("param") \
                and not f.ty.has("self") and not f.ty.has("tup") and not f.ty.has("arr") and self.r.random() < pa * 0.25:
            f.skip = True
            return f
        if self.p.inline and self.inlineable(f.ty) and f.ty.has("user") and self.r.random() < 0.35:
            f.inline = True
        if self.p.optional and f.ty.kind == "opt" and self.r.random() < 0.4:
            f.optional = self.r.choice(["opt", "nullable"])
        if self.r.random() < pa * 0.2 and not f.ty.has("param") and not f.ty.has("self") and not in_variant:
            f.default = False  # serde(default) needs Default for the field type; only for options
            if f.ty.kind == "opt":
                f.default = True
        self.maybe_as_other(f)
        if f.as_ty is None and self.p.overrides and not f.inline and not f.optional and self.r.random() < pa * 0.15:
            if f.ty.kind == "prim" and f.ty.name in INT_PRIMS:
                if self.r.random() < 0.5:
                    f.type_ = "number" if f.ty.name not in ("u64", "i64") else "bigint"
                else:
                    f.as_ = f.ty.name
        return f

    def unnamed_field(self, params, depth):
        f = Field(None, self.ty(depth, params))
        if self.p.inline and self.inlineable(f.ty) and f.ty.has("user") and self.r.random() < 0.25:
            f.inline = True
        self.maybe_as_other(f)
        return f

    def maybe_as_other(self, f):
        """ts-only corpora: the field is bound `as` another type of the corpus (by name or inlined)"""
        if not (self.p.ts_only and self.p.placements) or f.flatten or f.skip or f.optional or self.r.random() >= 0.08:
            return
        cands = [i for i in self.items if not i.params and not i.recursive]
        if not cands:
            return
        other = Ty("user", item=self.r.choice(cands))
        f.as_ty = self.r.choice([other, other, Ty("vec", args=[other]), Ty("opt", args=[other])])
        f.as_ = None
        f.type_ = None
        f.inline = self.p.inline and self.r.random() < 0.5

    def maybe_variant_as(self, v):
        """ts-only corpora: a whole variant is bound `as` another type of the corpus, which nothing else may reach"""
        if not (self.p.ts_only and self.p.placements) or v.kind == "unit" or v.skip or v.rename_all or self.r.random() >= 0.12:
            return
        cands = [i for i in self.items if not i.params and not i.recursive]
        if not cands:
            return
        other = Ty("user", item=self.r.choice(cands))
        v.as_ty = self.r.choice([other, other, Ty("vec", args=[other]), Ty("opt", args=[other])])
        # what the variant holds in Rust is irrelevant to the binding: something without a binding of its own need not exist,
        # so keep plain leaves (their attributes would still be parsed)
        for f in v.fields:
            f.ty, f.inline, f.flatten, f.skip, f.optional, f.as_, f.as_ty, f.type_, f.default = self.leaf(), False, False, False, None, None, None, None, False
        v.tags.append("v:as>user")

    def skip_tuple_fields(self, fields, tags):
        """now and then some, or all, fields of a tuple are skipped (serde then emits a shorter sequence, `[]` for none left)"""
        if len(fields) < 2 or self.r.random() >= self.p.p_attr * 0.2:
            return
        everything = self.r.random() < 0.5
        for f in fields:
            if everything or self.r.random() < 0.4:
                f.ty = self.leaf()          # a skipped field needs Default
                if f.ty.kind == "prim" and f.ty.name != "char" or f.ty.kind in ("opt", "vec"):
                    f.inline = False
                    f.skip = True
        if all(f.skip for f in fields):
            tags.append("k:tuple-all-fields-skipped")

    # -- items ------------------------------------------------------------------------------
    def new_item(self, kind):
        n = self.n()
        it = Item(id=f"{self.prefix}{n}", name=f"{self.prefix}{n}", kind=kind,
                  derives=["TS", "SerdeAttrs"] if self.p.ts_only else ["Clone", "Debug", "Serialize", "Deserialize", "TS", "Samples"])
        it.serde = not self.p.ts_only
        return it

    def gen_params(self):
        if not self.p.generics or self.r.random() > 0.18:
            return []
        return self.r.choice([["T"], ["T"], ["T", "U"]])

    def add_param_defaults(self, it: Item):
        """`struct G<T, U = Foo>`: defaults are dependencies of the declaration (graph corpora only)."""
        if not (self.p.placements and it.params and self.r.random() < 0.4):
            return
        last = it.params[-1]
        cands = [i for i in self.items if not i.params]
        if cands and self.r.random() < 0.6:
            d = Ty("user", item=self.r.choice(cands))
        else:
            d = self.r.choice([prim("String"), Ty("vec", args=[prim("u8")]), Ty("opt", args=[prim("i32")])])
        it.param_defaults[last] = d.rs()
        it.param_default_tys = {last: d}

    def struct(self):
        kind = self.r.choices(["unit", "newtype", "tuple", "named"], [1, 3, 3, 12])[0]
        it = self.new_item(kind)
        it.params = self.gen_params() if kind != "unit" else []
        d = self.p.max_depth
        if kind == "newtype":
            it.fields = [self.unnamed_field(it.params, d)]
            if not it.params and self.r.random() < self.p.p_attr * 0.12:
                # serde ignores `skip` on the field of a newtype struct (it still writes the content)
                it.fields = [Field(None, self.leaf(), skip=True)]
                if it.fields[0].ty.name == "char":
                    it.fields[0].ty = prim("String")
                it.tags.append("k:newtype-struct-skip")
        elif kind == "tuple":
            k = self.r.choice([0, 2, 2, 3])
            it.fields = [self.unnamed_field(it.params, d) for _ in range(k)]
            self.skip_tuple_fields(it.fields, it.tags)
        elif kind == "named":
            k = self.r.choice([0, 1, 2, 2, 3, 3, 4])
            used = set()
            it.fields = [self.named_field(it.params, d, allow_self=True, used=used) for _ in range(k)]
            if self.p.flatten and self.r.random() < 0.07:
                # a struct that consists of flattened members only (one to three)
                only = []
                used = set()
                for _ in range(self.r.choice([1, 2, 2, 3])):
                    t = self.flatten_target(it.params, used)
                    if t is not None:
                        only.append(Field(self.field_name(), t, flatten=True))
                if only:
                    it.fields = only
                    it.tags.append("k:only-flattened-members")
            pa = self.p.p_attr
            # (ts-rs documents rename_all as not applicable to a struct without fields)
            if it.fields and self.r.random() < (self.p.p_rename_all if self.p.p_rename_all is not None else pa):
                it.rename_all = self.r.choice(RULES)
            if self.r.random() < pa * 0.3:
                it.tag = f"tag{self.n()}"
            if self.p.optional and self.r.random() < pa * 0.3:
                it.optional_fields = self.r.choice(["opt", "nullable"])
                if it.optional_fields == "opt":
                    for f in it.fields:
                        if f.ty.resolved().kind == "opt" and f.optional is None and not f.flatten and not f.skip:
                            f.extra_attrs.append('#[serde(skip_serializing_if = "Option::is_none")]')
        if self.r.random() < self.p.p_attr * 0.3:
            it.rename = f"Ren{self.prefix}{self.n()}"
        self.add_param_defaults(it)
        self.finish(it)
        return it

    def enum(self):
        it = self.new_item("enum")
        it.params = self.gen_params()
        rep = self.r.choice(["external", "external", "internal", "adjacent", "untagged"])
        if rep in ("internal", "adjacent"):
            it.tag = f"tag{self.n()}"
        if rep == "adjacent":
            it.content = f"content{self.n()}"
        if rep == "untagged":
            it.untagged = True
        pa = self.p.p_attr
        pra = self.p.p_rename_all if self.p.p_rename_all is not None else pa
        if self.r.random() < pra:
            it.rename_all = self.r.choice(RULES)
        if self.r.random() < (pra if self.p.p_rename_all is not None else pa * 0.6):
            it.rename_all_fields = self.r.choice(RULES)
        k = self.r.choice([1, 2, 3, 3, 4, 5])
        kinds = ["unit", "newtype", "struct"] if rep == "internal" else ["unit", "newtype", "tuple", "struct"]
        d = self.p.max_depth
        all_unit = self.r.random() < 0.2 and rep == "external"
        for _ in range(k):
            vk = "unit" if all_unit else self.r.choice(kinds)
            v = Variant(self.variant_name(), vk)
            if vk == "newtype":
                if rep == "internal":
                    # serde only serializes internally tagged newtype variants whose content is a
                    # struct or a map (Appendix A.1): keep to those
                    def mapish(i):
                        # ... or an enum whose variants serialize as maps (serde refuses the others at run time)
                        if i.kind == "named":
                            return i.tag is None
                        if i.kind == "unit":
                            return True         # (a unit struct adds nothing to the tag object)
                        if i.kind != "enum" or i.untagged or self.r.random() < 0.5:
                            return False
                        return self.flatten_clean(i) or self.r.random() < 0.08
                    t = self.user_ref(it.params, pred=mapish) if self.r.random() < 0.85 else None
                    if t is None:
                        t = Ty("map", "BTreeMap", args=[prim("String"), self.ty(1, it.params)])
                    if self.r.random() < 0.06:
                        t = prim("()")
                        v.tags.append("k:internal-newtype-unit")
                    elif t.kind == "user" and t.item.kind == "unit":
                        v.tags.append("k:internal-newtype-unit")
                    f = Field(None, t)
                    if self.p.inline and t.kind == "user" and self.inlineable(t) and self.r.random() < 0.35:
                        f.inline = True
                    v.fields = [f]
                else:
                    v.fields = [self.unnamed_field(it.params, d)]
            elif vk == "tuple":
                n = self.r.choice([0, 2, 2, 3])
                v.fields = [self.unnamed_field(it.params, d) for _ in range(n)]
                self.skip_tuple_fields(v.fields, v.tags)
            elif vk == "struct":
                # (ts-rs rejects rename_all / rename_all_fields on a struct variant without fields)
                n = self.r.choice([0, 1, 2, 2, 3]) if not it.rename_all_fields else self.r.choice([1, 2, 2, 3])
                used = set()
                v.fields = [self.named_field(it.params, d, allow_self=True, in_variant=True, used=used) for _ in range(n)]
                if v.fields and self.r.random() < (pra * 0.5 if self.p.p_rename_all is not None else pa * 0.5):
                    v.rename_all = self.r.choice(RULES)
            if self.r.random() < pa * 0.4:
                v.rename = self.wire_rename()
            if self.r.random() < pa * 0.15 and k > 1:
                v.skip = True
            self.maybe_variant_as(v)
            it.variants.append(v)
        if all(v.skip for v in it.variants):
            it.variants[0].skip = False
        # trailing per-variant untagged
        if rep != "untagged" and self.r.random() < 0.12:
            j = self.r.randrange(len(it.variants))
            for v in it.variants[j:]:
                v.untagged = True
        if all_unit and not it.params:
            it.keyable = all(not v.skip and not v.untagged for v in it.variants)
            if it.keyable:
                it.derives += ["PartialEq", "Eq", "Hash", "PartialOrd", "Ord"]
        if self.r.random() < pa * 0.3:
            it.rename = f"Ren{self.prefix}{self.n()}"
        self.finish(it)
        return it

    def finish(self, it: Item):
        used = set()
        for f in it.all_fields():
            for s in f.ty.walk():
                if s.kind == "param":
                    used.add(s.name)
        # unused type parameters are a compile error: add PhantomData-free use via a tuple field
        for p in it.params:
            if p not in used:
                if it.kind == "named":
                    it.fields.append(Field(self.field_name(), Ty("param", p)))
                elif it.kind in ("newtype", "tuple"):
                    it.fields.append(Field(None, Ty("param", p)))
                    it.kind = "tuple" if len(it.fields) != 1 else "newtype"
                elif it.kind == "enum":
                    unt = any(v.untagged for v in it.variants)
                    if it.repr() == "internal" and not unt:
                        it.variants.append(Variant(self.variant_name(), "struct",
                                                   [Field(self.field_name(), Ty("param", p))]))
                    else:
                        it.variants.append(Variant(self.variant_name(), "newtype", [Field(None, Ty("param", p))],
                                                   untagged=unt))
        if it.kind in ("newtype", "tuple"):
            it.kind = "newtype" if len(it.fields) == 1 else "tuple"
        if self.p.generics and it.kind == "named" and "M" not in it.params and self.r.random() < 0.07:
            # a marker parameter: no exported field mentions it, but the type's name does (`Id<User>`)
            it.params.insert(0, "M")
            it.fields.append(Field(self.field_name(), Ty("raw", "std::marker::PhantomData<M>"), skip=True))
            it.tags.append("k:phantom-parameter")
        it.recursive = it.recursive or any(f.ty.has("self") for f in it.all_fields()) or any(d.recursive for d in it.deps())
        if self.p.p_macro and any(True for _ in it.all_fields()) and self.r.random() < self.p.p_macro:
            # (built-in derives such as Clone refuse items with macros in type position)
            it.via_macro = True if (it.concrete or not self.p.ts_only) else self.r.choice([True, True, "tymacro"])
            it.tags.append("k:declared-by-macro" if it.via_macro is True else "k:field-types-are-macro-invocations")
        if self.p.placements:
            self.place(it)
        self.items.append(it)

    SHARED = ["shared/one.ts", "shared/two.ts", "deep/er/three.ts", "../up/four.ts"]

    def place(self, it: Item):
        r = self.r.random()
        px = self.prefix.lower()
        if r < 0.35:
            return
        if r < 0.50:
            it.export_to = self.r.choice([f"{px}dir/", f"{px}a/b/", "common/", f"../{px}esc/", f"{px}x/../{px}y/", f"../../{px}up2/", f"../{px}a/../../{px}up3/"])
        elif r < 0.62:
            it.export_to = self.r.choice([f"{px}files/{it.name}_f.ts", f"{px}{it.name}.custom.ts", f"n1/n2/{px}{it.name}.ts",
                                          f"../{px}out/{it.name}.ts", f"{px}q/{it.name}.d.ts"])
        else:
            # files shared by several types (same stem in different directories too)
            it.export_to = self.r.choice([f"{px}{s}" if not s.startswith("../") else f"../{px}{s[3:]}" for s in self.SHARED]
                                         + [f"{px}s1/same.ts", f"{px}s2/same.ts", f"{px}s1/nested/same.ts", f"{px}s1/nested/deeper/same.ts"])
            # the same file may be spelled differently by different types
            if self.r.random() < 0.3 and "/" in it.export_to:
                d, f = it.export_to.rsplit("/", 1)
                it.export_to = self.r.choice([f"{d}/sub/../{f}", f"./{d}/{f}", f"{d}/./{f}", f"{d}/x/y/../../{f}"])

    def cycle_pair(self):
        """Two named structs referring to each other (through Option<Box<_>> / Vec<_>)."""
        a = self.new_item("named")
        b = self.new_item("named")
        a.recursive = b.recursive = True
        d = max(1, self.p.max_depth - 1)
        a.fields = [self.named_field([], d, allow_self=False) for _ in range(self.r.choice([0, 1, 2]))]
        a.fields.append(Field(self.field_name(), Ty("opt", args=[Ty("box", args=[Ty("user", item=b)])])))
        b.fields = [self.named_field([], d, allow_self=False) for _ in range(self.r.choice([0, 1, 2]))]
        b.fields.append(Field(self.field_name(), self.r.choice([Ty("vec", args=[Ty("user", item=a)]),
                                                                  Ty("map", "BTreeMap", args=[prim("String"), Ty("user", item=a)])])))
        for it in (a, b):
            for f in it.fields:
                f.flatten = f.flatten and False
            if self.p.placements:
                self.place(it)
            self.items.append(it)
        return a

    def wide_item(self):
        """named struct with many by-name references to distinct earlier items (imports with several names / files)"""
        it = self.new_item("named")
        cands = [i for i in self.items if not i.params]
        self.r.shuffle(cands)
        for c in cands[: self.r.choice([5, 6, 8, 9])]:
            it.fields.append(Field(self.field_name(), Ty("user", item=c)))
        self.finish(it)
        return it

    def item(self):
        if self.p.placements and self.r.random() < 0.06:
            return self.cycle_pair()
        if self.p.wide and len(self.items) > 10 and self.r.random() < self.p.wide:
            return self.wide_item()
        if self.p.enums and self.r.random() < 0.45:
            return self.enum()
        return self.struct()

    # -- registry ---------------------------------------------------------------------------
    def arg_type(self):
        r = self.r.random()
        if r < 0.5:
            return self.leaf()
        if r < 0.7:
            return Ty("vec", args=[self.leaf()])
        if r < 0.8:
            return Ty("opt", args=[self.leaf()])
        cands = [i for i in self.items if not i.params]
        if cands:
            return Ty("user", item=self.r.choice(cands))
        return self.leaf()

    def make_entries(self, per_generic=3):
        for it in self.items:
            if not it.params:
                self.entries.append((it.id, it, []))
            else:
                for j in range(per_generic):
                    args = [self.arg_type() for _ in it.params]
                    self.entries.append((f"{it.id}#{j}", it, args))


def entry_rust(it: Item, args: List[Ty]) -> str:
    if not args:
        return it.name
    return f"{it.name}<{', '.join(a.rs() for a in args)}>"


HEADER = """#![allow(dead_code, unused_imports, non_camel_case_types, non_snake_case, clippy::all)]
use std::collections::{BTreeMap, BTreeSet, HashMap, HashSet};
use serde::{Deserialize, Serialize};
use ts_rs::TS;
use vsupport::{Samples, SerdeAttrs, TypeEntry};
macro_rules! ty_is { ($t:ty) => { $t }; }
"""


def emit_aliases(g) -> str:
    return "\n".join(f"pub type {a.name} = {a.args[0].rs()};" for a in getattr(g, "aliases", []))


def emit_crate_source(g: Gen, entry_ctor="serde") -> str:
    out = [HEADER, emit_aliases(g)]
    for it in g.items:
        out.append(emit_item(it))
        out.append("")
    out.append("pub fn registry() -> Vec<TypeEntry> {\n    vec![")
    for eid, it, args in g.entries:
        rust = entry_rust(it, args)
        out.append(f"        TypeEntry::{entry_ctor}::<{rust}>({rs_str(eid)}, {rs_str(rust)}),")
    out.append("    ]\n}\n")
    out.append("fn main() {\n    vsupport::run(registry());\n}\n")
    return "\n".join(out)


def metadata(g: Gen):
    items = {}
    for it in g.items:
        items[it.id] = {
            "name": it.name, "ts_name": it.ts_name(), "kind": it.kind, "repr": it.repr() if it.kind == "enum" else None,
            "params": it.params, "recursive": it.recursive, "tags": it.feature_tags(),
            "source": emit_item(it),
            "deps": sorted({d.id for d in it.deps()}),
            "text_children": sorted({d.id for d in it.text_children()}),
        }
    entries = {eid: {"item": it.id, "rust": entry_rust(it, args),
                     "arg_items": sorted({u.id for a in args for u in a.users()})} for eid, it, args in g.entries}
    return {"items": items, "entries": entries}
