"""C14 corpus: presentation groups - the same field type presented by name / inline / flatten / as."""
import tsgen
from tsgen import Field, Item, Profile, Ty, Variant, prim


class PresGen:
    def __init__(self, seed, prefix, pool_size):
        self.g = tsgen.Gen(seed, prefix, Profile(max_depth=2, ts_only=True, p_attr=0.3))
        self.prefix = prefix
        for _ in range(pool_size):
            self.g.item()
        self.pool = list(self.g.items)
        self.groups = []     # dict(id, ftype_rs, members={role: item}, kind)
        self.n = 0
        # fixed targets: enums whose spelling is a union with `null` in the middle, presented inside Option / Vec
        self.fixed_targets = []
        for k, kw in enumerate(({"untagged": True}, {})):
            cell = Item(f"{prefix}Cell{k}", f"{prefix}Cell{k}", "enum", derives=["TS", "SerdeAttrs"], variants=[
                Variant("Num", "newtype", [Field(None, prim("i32"))]), Variant("Empty", "unit"), Variant("Text", "newtype", [Field(None, prim("String"))])], **kw)
            cell.serde = False
            self.g.items.append(cell)
            self.fixed_targets.append(cell)

    def mk(self, kind, **kw):
        self.n += 1
        iid = f"{self.prefix}P{self.n}"
        it = Item(iid, iid, kind, derives=["TS", "SerdeAttrs"], **kw)
        it.serde = False
        self.g.items.append(it)
        return it

    def ftypes(self):
        r = self.g.r
        out = []
        for cell in self.fixed_targets:
            base = Ty("user", item=cell)
            out.append(("container", Ty("opt", args=[Ty("vec", args=[base])]), cell))
            out.append(("container", Ty("opt", args=[base]), cell))
            out.append(("container", Ty("vec", args=[Ty("opt", args=[base])]), cell))
        for it in self.pool:
            if it.recursive:
                continue
            args = [r.choice([prim("i32"), prim("String"), Ty("vec", args=[prim("u8")]), Ty("opt", args=[prim("bool")])]) for _ in it.params]
            base = Ty("user", item=it, args=args)
            out.append(("user", base, it))
            wrap = r.choice(["opt", "vec", "map", "box", "arr", "arr", None, None])
            if wrap == "opt":
                out.append(("container", Ty("opt", args=[base]), it))
            elif wrap == "vec":
                out.append(("container", Ty("vec", args=[base]), it))
            elif wrap == "map":
                out.append(("container", Ty("map", "HashMap", args=[prim("String"), base]), it))
            elif wrap == "box":
                out.append(("container", Ty("box", args=[base]), it))
            elif wrap == "arr":
                # fixed-size arrays around the tuple limit (64): a tuple up to it, an array beyond
                n = r.choice([0, 1, 2, 3, 63, 64, 64, 65])
                inner = r.choice([base, base, Ty("opt", args=[base])])
                arr = Ty("arr", args=[inner], n=n)
                out.append(("container", r.choice([arr, arr, Ty("vec", args=[arr]), Ty("opt", args=[arr])]), it))
        # a library type whose *name* is a union of object types: what an internally tagged newtype variant intersects with its tag
        out.append(("container", Ty("raw", "Result<i32, String>"), self.fixed_targets[0]))
        out.append(("container", Ty("raw", "Result<Vec<bool>, Option<u8>>"), self.fixed_targets[0]))
        return out

    def build(self):
        r = self.g.r
        for kind, ft, it in self.ftypes():
            inlineable = self.g.inlineable(ft)
            gid = f"{self.prefix}g{len(self.groups)}"
            members = {}
            shape = r.choice(["named", "named", "newtype", "variant", "tagged-only"])

            def parent(role, **fattrs):
                nonlocal ft
                if shape == "named":
                    p = self.mk("named", fields=[Field("own", prim("i32")), Field("f", ft, **fattrs)])
                elif shape == "newtype":
                    p = self.mk("newtype", fields=[Field(None, ft, **fattrs)])
                elif shape == "tagged-only":
                    # a tagged struct whose only member is the presented field: the tag is the parent's own part
                    p = self.mk("named", fields=[Field("f", ft, **fattrs)], tag="t")
                else:
                    p = self.mk("enum", variants=[Variant("Va", "struct", [Field("own", prim("i32")), Field("f", ft, **fattrs)]),
                                                  Variant("Vb", "unit")])
                members[role] = p
                return p
            parent("name")
            if inlineable:
                parent("inline", inline=True)
            if ft.kind == "opt" and shape == "named":
                # `#[ts(optional)]`: `f?: U` by name and inlined
                for onull in ("opt", "nullable"):
                    parent(f"name-optional-{onull}", optional=onull)
                    if inlineable:
                        parent(f"inline-optional-{onull}", inline=True, optional=onull)
            flat_ok = shape in ("named", "variant", "tagged-only") and kind == "user" and it.kind in ("named", "enum") and not (it.kind == "named" and it.tag)
            if flat_ok:
                parent("flat", flatten=True)
                # the same through a transparent wrapper
                keep = ft
                ft = Ty("box", args=[keep])
                parent("flat-boxed", flatten=True)
                ft = keep
            # `as = "F"` on a field whose Rust type is something else
            if shape == "named":
                p = self.mk("named", fields=[Field("own", prim("i32")), Field("f", prim("u8"), as_=ft.rs())])
                members["as"] = p
            elif shape == "newtype":
                p = self.mk("newtype", fields=[Field(None, prim("u8"), as_=ft.rs())])
                members["as"] = p
            # `as = "F"` together with `inline`: what an inlined field of type F gives
            if inlineable and shape in ("named", "newtype"):
                if shape == "named":
                    p = self.mk("named", fields=[Field("own", prim("i32")), Field("f", prim("u8"), as_=ft.rs(), inline=True)])
                else:
                    p = self.mk("newtype", fields=[Field(None, prim("u8"), as_=ft.rs(), inline=True)])
                members["as-inline"] = p
            nv_rep = None
            if inlineable and (ft.kind == "raw" or r.random() < 0.5):
                # the same on the field of a newtype variant, in every representation
                nv_rep = "internal" if ft.kind == "raw" else r.choice(["external", "internal", "adjacent", "untagged"])
                reps = {"external": {}, "internal": {"tag": "t"}, "adjacent": {"tag": "t", "content": "c"}, "untagged": {"untagged": True}}[nv_rep]
                members["nv-name"] = self.mk("enum", variants=[Variant("Va", "newtype", [Field(None, ft)]), Variant("Vb", "unit")], **reps)
                members["nv-inline-twin"] = self.mk("enum", variants=[Variant("Va", "newtype", [Field(None, ft, inline=True)]), Variant("Vb", "unit")], **reps)
                members["nv-as-inline"] = self.mk("enum", variants=[Variant("Va", "newtype", [Field(None, prim("u8"), as_=ft.rs(), inline=True)]),
                                                                    Variant("Vb", "unit")], **reps)
            # variant-level `as`: the variant is what it would be if it held one field of type F
            if ft.kind == "raw" or r.random() < 0.5:
                rep = "internal" if ft.kind == "raw" else r.choice(["external", "internal", "adjacent", "untagged"])
                reps = {"external": {}, "internal": {"tag": "t"}, "adjacent": {"tag": "t", "content": "c"}, "untagged": {"untagged": True}}[rep]
                as_attr = f"#[ts(as = {tsgen.rs_str(ft.rs())})]"
                twin = self.mk("enum", variants=[Variant("Va", "newtype", [Field(None, ft)]), Variant("Vb", "unit")], **reps)
                vas = self.mk("enum", variants=[Variant("Va", "newtype", [Field(None, prim("u8"))], extra_attrs=[as_attr]),
                                                Variant("Vb", "unit")], **reps)
                vas_struct = self.mk("enum", variants=[Variant("Va", "struct", [Field("x", prim("u8"))], extra_attrs=[as_attr]),
                                                       Variant("Vb", "unit")], **reps)
                members["variant-twin"] = twin
                members["variant-as"] = vas
                members["variant-as-struct"] = vas_struct
                # ... whatever the variant itself holds: nothing, or one field that is skipped
                members["variant-as-unit"] = self.mk("enum", variants=[Variant("Va", "unit", extra_attrs=[as_attr]), Variant("Vb", "unit")], **reps)
                members["variant-as-skipped"] = self.mk("enum", variants=[
                    Variant("Va", "newtype", [Field(None, prim("u8"), extra_attrs=["#[ts(skip)]"])], extra_attrs=[as_attr]), Variant("Vb", "unit")], **reps)
                variant_rep = rep
            else:
                variant_rep = None
            # container-level `as`
            c = self.mk("named", fields=[Field("ignored", prim("bool"))])
            c.extra_attrs.append(f"#[ts(as = {tsgen.rs_str(ft.rs())})]")
            members["container-as"] = c
            # ... on an enum, and on an enum without variants (a marker type bound as something else)
            ce = self.mk("enum", variants=[Variant("Ignored", "unit"), Variant("Also", "newtype", [Field(None, prim("bool"))])])
            ce.extra_attrs.append(f"#[ts(as = {tsgen.rs_str(ft.rs())})]")
            members["container-as-enum"] = ce
            cn = self.mk("enum", variants=[])
            cn.extra_attrs.append(f"#[ts(as = {tsgen.rs_str(ft.rs())})]")
            members["container-as-empty-enum"] = cn
            if flat_ok and shape == "named":
                # flattening a type that is bound `as` F is flattening F
                q = self.mk("named", fields=[Field("own", prim("i32")), Field("f", Ty("user", item=c), flatten=True)])
                members["flat-of-container-as"] = q
            # nesting: the inlining parent flattened into another struct, the flattening parent inlined
            if "inline" in members and shape == "named":
                q = self.mk("named", fields=[Field("outer", prim("bool")), Field("g", Ty("user", item=members["inline"]), flatten=True)])
                members["flat-of-inline"] = q
                q2 = self.mk("named", fields=[Field("outer", prim("bool")), Field("g", Ty("user", item=members["name"]), flatten=True)])
                members["flat-of-name"] = q2
            if "flat" in members and shape == "named":
                q = self.mk("named", fields=[Field("outer", prim("bool")), Field("g", Ty("user", item=members["flat"]), inline=True)])
                members["inline-of-flat"] = q
            self.groups.append({"id": gid, "ftype": ft.rs(), "kind": kind, "shape": shape, "target": it.id,
                                "target_tags": it.feature_tags(), "members": {k: v.id for k, v in members.items()},
                                "variant_rep": variant_rep, "nv_rep": nv_rep})
        self.g.make_entries(per_generic=1)
        # the field type itself must be registered with the arguments the group uses
        return self.g

    def source(self):
        out = [tsgen.HEADER, tsgen.emit_aliases(self.g)]
        for it in self.g.items:
            out.append(f"// @item {it.id}")
            out.append(tsgen.emit_item(it))
            out.append("")
        out.append("// @item __registry")
        out.append("pub fn registry() -> Vec<TypeEntry> {\n    vec![")
        for eid, it, args in self.g.entries:
            rust = tsgen.entry_rust(it, args)
            out.append(f"        TypeEntry::ts::<{rust}>({tsgen.rs_str(eid)}, {tsgen.rs_str(rust)}), // @entry {eid}")
        for gr in self.groups:
            out.append(f"        TypeEntry::ts::<{gr['ftype']}>({tsgen.rs_str('F:' + gr['id'])}, {tsgen.rs_str(gr['ftype'])}), // @entry F:{gr['id']}")
        out.append("    ]\n}\n")
        out.append("fn main() {\n    vsupport::run(registry());\n}\n")
        return "\n".join(out)
