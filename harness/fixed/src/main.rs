//! Fixed (hand-written) type universe for the history / fault / schedule monitors, where the
//! quantifier is over call sequences, obstacles and interleavings rather than over programs.
#![allow(dead_code)]

use std::collections::HashMap;

use serde::{Deserialize, Serialize};
use ts_rs::TS;
use vsupport::{Samples, TypeEntry};

// ---- universe U: two shared files, a dependency chain, a cycle, directory / file / default placement ----

/// First of three types living in `shared/abc.ts`.
#[derive(TS, Serialize, Deserialize, Clone, Debug, Samples)]
#[ts(export_to = "shared/abc.ts")]
pub struct UA {
    pub d: UD,
    pub n: i32,
}

#[derive(TS, Serialize, Deserialize, Clone, Debug, Samples)]
#[ts(export_to = "shared/abc.ts")]
pub struct UB {
    /// a documented field
    pub flag: bool,
    pub f: Option<Box<UF>>,
}

/// Depends on a type in the same file and on one elsewhere.
#[derive(TS, Serialize, Deserialize, Clone, Debug, Samples)]
#[ts(export_to = "shared/abc.ts")]
pub enum UC {
    A(UA),
    E { e: UE },
    None,
}

/// Lives in `shared/abc.ts` too, but spells the path differently.
#[derive(TS, Serialize, Deserialize, Clone, Debug, Samples)]
#[ts(export_to = "shared/sub/../abc.ts")]
pub struct UI {
    pub b: Option<Box<UB>>,
    pub h: UH,
}

#[derive(TS, Serialize, Deserialize, Clone, Debug, Samples)]
pub struct UD {
    pub e: Vec<UE>,
}

#[derive(TS, Serialize, Deserialize, Clone, Debug, Samples)]
#[ts(export_to = "nested/dir/")]
pub struct UE {
    pub f: Option<Box<UF>>,
    pub name: String,
}

#[derive(TS, Serialize, Deserialize, Clone, Debug, Samples)]
#[ts(export_to = "nested/UF_custom.ts")]
pub struct UF {
    pub e: Vec<UE>,
    pub g: HashMap<String, UG<UH>>,
}

#[derive(TS, Serialize, Deserialize, Clone, Debug, Samples)]
#[ts(export_to = "two.ts")]
pub struct UG<T> {
    pub t: T,
    // (a dependency of the body that one of the instantiations also has as its argument: `UG<UH>`)
    pub h: Option<Box<UH>>,
}

#[derive(TS, Serialize, Deserialize, Clone, Debug, Samples)]
#[ts(export_to = "two.ts")]
pub struct UGx {
    pub g: UG<String>,
    pub v: Vec<i32>,
}

/// Third type of `two.ts`; as text `UG2` sorts before `UG<T>` (`2` < `<`), as an identifier after `UG`.
#[derive(TS, Serialize, Deserialize, Clone, Debug, Samples)]
#[ts(export_to = "two.ts")]
pub struct UG2 {
    pub v: i32,
}

#[derive(TS, Serialize, Deserialize, Clone, Debug, Samples)]
#[ts(export_to = "../escape/UH.ts")]
pub struct UH {
    pub x: u64,
}

// two types of one TypeScript name in different files, each imported by one of two types that share a file
pub mod um {
    use super::*;
    #[derive(TS, Serialize, Deserialize, Clone, Debug, Samples)]
    #[ts(export_to = "um/")]
    pub struct USame {
        pub m: i32,
    }
}
pub mod un {
    use super::*;
    #[derive(TS, Serialize, Deserialize, Clone, Debug, Samples)]
    #[ts(export_to = "un/")]
    pub struct USame {
        pub n: String,
    }
}

#[derive(TS, Serialize, Deserialize, Clone, Debug, Samples)]
#[ts(export_to = "three.ts")]
pub struct UJ {
    pub j: um::USame,
}

#[derive(TS, Serialize, Deserialize, Clone, Debug, Samples)]
#[ts(export_to = "three.ts")]
pub struct UK {
    pub k: un::USame,
}

// an import statement long enough for a formatter to wrap it over several lines
#[derive(TS, Serialize, Deserialize, Clone, Debug, Samples)]
#[ts(export_to = "fmt/de;ps.ts")]
pub struct LongDependencyNameNumberOne {
    pub one: i32,
}
#[derive(TS, Serialize, Deserialize, Clone, Debug, Samples)]
#[ts(export_to = "fmt/de;ps.ts")]
pub struct LongDependencyNameNumberTwo {
    pub two: i32,
}
#[derive(TS, Serialize, Deserialize, Clone, Debug, Samples)]
#[ts(export_to = "fmt/de;ps.ts")]
pub struct LongDependencyNameNumberThree {
    pub three: i32,
}
#[derive(TS, Serialize, Deserialize, Clone, Debug, Samples)]
#[ts(export_to = "fmt/both.ts")]
pub struct FmtUserA {
    pub a: LongDependencyNameNumberOne,
    pub b: LongDependencyNameNumberTwo,
    pub c: LongDependencyNameNumberThree,
}
#[derive(TS, Serialize, Deserialize, Clone, Debug, Samples)]
#[ts(export_to = "fmt/both.ts")]
pub struct FmtUserB {
    pub b: LongDependencyNameNumberTwo,
    pub d: UD,
}

// ---- C05: declaration texts that stress the merge (multi-line bodies, docs, prefix names, imports) ----

/// line one
/// export type Fake = number;
#[derive(TS)]
#[ts(export_to = "m/merged.ts")]
pub struct Foo {
    pub a: UD,
}

#[derive(TS)]
#[ts(export_to = "m/merged.ts")]
pub struct FooBar {
    /// multi
    /// line field doc
    pub b: UE,
    pub c: UD,
}

#[derive(TS)]
#[ts(export_to = "m/merged.ts")]
pub struct Foo1<T> {
    pub t: T,
    pub h: UH,
}

/** block doc
 * without an empty line */
#[derive(TS)]
#[ts(export_to = "m/merged.ts")]
pub enum Fo {
    /// variant doc
    X,
    Y { f: UF },
}

// sorts before `Foo1<T>` as text (`0` < `<`) although `Foo1` < `Foo10` as identifiers
#[derive(TS)]
#[ts(export_to = "m/merged.ts")]
pub struct Foo10 {
    pub g: UGx,
}

#[derive(TS)]
#[ts(export_to = "m/merged.ts", rename = "A0")]
pub struct AZero;

#[derive(TS)]
#[ts(export_to = "m/merged.ts", rename = "zz")]
pub struct LowerZz(pub UA);

/** block doc

 with an empty line (known finding: breaks the merge splitter) */
#[derive(TS)]
#[ts(export_to = "m/blank.ts")]
pub struct BlankDoc {
    pub a: i32,
}

#[derive(TS)]
#[ts(export_to = "m/blank.ts")]
pub struct Aaa {
    pub d: UD,
}

#[derive(TS)]
#[ts(export_to = "m/blank.ts")]
pub struct Zzz {
    pub e: UE,
}

// a shared file whose name does not end in `.ts`, its types referring to one another
#[derive(TS)]
#[ts(export_to = "ext/models.mts")]
pub struct ExtLeaf {
    pub v: u8,
}
/// a branch
#[derive(TS)]
#[ts(export_to = "ext/models.mts")]
pub struct ExtBranch {
    pub leaf: ExtLeaf,
    pub d: UD,
}
#[derive(TS)]
#[ts(export_to = "ext/models.mts")]
pub struct ExtTree {
    pub b: Vec<ExtBranch>,
    pub l: Option<ExtLeaf>,
}
#[derive(TS)]
#[ts(export_to = "ext/api.v1")]
pub struct ExtV1A {
    pub e: UE,
}
#[derive(TS)]
#[ts(export_to = "ext/api.v1")]
pub struct ExtV1B {
    pub a: ExtV1A,
    pub t: ExtTree,
}

// text outside of ASCII (several bytes per character) in the declarations of a shared file that needs no imports
/// Größe und Gewicht – 日本語のコメント
#[derive(TS)]
#[ts(export_to = "m/uni.ts")]
pub struct UniAlpha {
    /// Breite in „mm“
    pub width: u32,
}
#[derive(TS)]
#[ts(export_to = "m/uni.ts")]
pub enum UniBeta {
    #[ts(rename = "grün")]
    Green,
    #[ts(rename = "weiß")]
    White,
}
#[derive(TS)]
#[ts(export_to = "m/uni.ts")]
pub struct UniGamma {
    pub g: bool,
}
/// naïve – ω
#[derive(TS)]
#[ts(export_to = "m/uni.ts")]
pub struct UniOmega {
    pub o: String,
}

// documentation that quotes the declaration of a sibling in the same file
/// The unit; see `export type QuoteMetres = number;` and export type QuoteMetre<T> = T;
#[derive(TS)]
#[ts(export_to = "m/quote.ts")]
pub struct QuoteDistance {
    pub d: u32,
}
#[derive(TS)]
#[ts(export_to = "m/quote.ts")]
pub struct QuoteMetre {
    pub m: u32,
}
#[derive(TS)]
#[ts(export_to = "m/quote.ts")]
pub struct QuoteMetres {
    pub ms: Vec<u32>,
}

// a hand-written implementation for a generic type (it relies on the provided `ident()`), sharing a file with a derived type
pub struct ManualPage<T>(pub Vec<T>);
impl<T: TS> TS for ManualPage<T> {
    type WithoutGenerics = ManualPage<ts_rs::Dummy>;
    type OptionInnerType = Self;
    fn name() -> String {
        format!("ManualPage<{}>", <T as TS>::name())
    }
    fn inline() -> String {
        format!("{{ items: Array<{}>, }}", <T as TS>::name())
    }
    fn inline_flattened() -> String {
        <Self as TS>::inline()
    }
    fn decl() -> String {
        "type ManualPage<T> = { items: Array<T>, };".to_owned()
    }
    fn decl_concrete() -> String {
        format!("type ManualPage = {};", <Self as TS>::inline())
    }
    fn output_path() -> Option<std::path::PathBuf> {
        Some(std::path::PathBuf::from("m/manual.ts"))
    }
    fn visit_generics(v: &mut impl ts_rs::TypeVisitor)
    where
        Self: 'static,
    {
        v.visit::<T>();
        <T as TS>::visit_generics(v);
    }
}
#[derive(TS)]
#[ts(export_to = "m/manual.ts")]
pub struct ManualOther {
    pub a: u8,
}
#[derive(TS)]
#[ts(export_to = "m/manual.ts")]
pub struct ManualUser {
    pub plain: ManualPage<u8>,
    pub nested: ManualPage<Vec<String>>,
}

pub fn registry() -> Vec<TypeEntry> {
    vec![
        TypeEntry::serde::<UA>("UA", "UA"),
        TypeEntry::serde::<UB>("UB", "UB"),
        TypeEntry::serde::<UC>("UC", "UC"),
        TypeEntry::serde::<UD>("UD", "UD"),
        TypeEntry::serde::<UE>("UE", "UE"),
        TypeEntry::serde::<UF>("UF", "UF"),
        TypeEntry::serde::<UG<u8>>("UG", "UG<u8>"),
        TypeEntry::serde::<UGx>("UGx", "UGx"),
        TypeEntry::serde::<UG2>("UG2", "UG2"),
        TypeEntry::serde::<UH>("UH", "UH"),
        TypeEntry::serde::<UI>("UI", "UI"),
        TypeEntry::serde::<um::USame>("UMSame", "um::USame"),
        TypeEntry::serde::<un::USame>("UNSame", "un::USame"),
        TypeEntry::serde::<UJ>("UJ", "UJ"),
        TypeEntry::serde::<UK>("UK", "UK"),
        TypeEntry::serde::<LongDependencyNameNumberOne>("Long1", "LongDependencyNameNumberOne"),
        TypeEntry::serde::<LongDependencyNameNumberTwo>("Long2", "LongDependencyNameNumberTwo"),
        TypeEntry::serde::<LongDependencyNameNumberThree>("Long3", "LongDependencyNameNumberThree"),
        TypeEntry::serde::<FmtUserA>("FmtUserA", "FmtUserA"),
        TypeEntry::serde::<FmtUserB>("FmtUserB", "FmtUserB"),
        TypeEntry::ts::<Foo>("Foo", "Foo"),
        TypeEntry::ts::<FooBar>("FooBar", "FooBar"),
        TypeEntry::ts::<Foo1<u8>>("Foo1", "Foo1<u8>"),
        // further instantiations of the same declaration; their arguments live in other files
        TypeEntry::ts::<Foo1<UJ>>("Foo1#uj", "Foo1<UJ>"),
        TypeEntry::ts::<Foo1<Vec<UK>>>("Foo1#vuk", "Foo1<Vec<UK>>"),
        TypeEntry::ts::<Fo>("Fo", "Fo"),
        TypeEntry::ts::<Foo10>("Foo10", "Foo10"),
        TypeEntry::ts::<AZero>("A0", "AZero"),
        TypeEntry::ts::<LowerZz>("zz", "LowerZz"),
        TypeEntry::ts::<BlankDoc>("BlankDoc", "BlankDoc"),
        TypeEntry::ts::<Aaa>("Aaa", "Aaa"),
        TypeEntry::ts::<Zzz>("Zzz", "Zzz"),
        TypeEntry::ts::<ExtLeaf>("ExtLeaf", "ExtLeaf"),
        TypeEntry::ts::<ExtBranch>("ExtBranch", "ExtBranch"),
        TypeEntry::ts::<ExtTree>("ExtTree", "ExtTree"),
        TypeEntry::ts::<ExtV1A>("ExtV1A", "ExtV1A"),
        TypeEntry::ts::<ExtV1B>("ExtV1B", "ExtV1B"),
        TypeEntry::ts::<UniAlpha>("UniAlpha", "UniAlpha"),
        TypeEntry::ts::<UniBeta>("UniBeta", "UniBeta"),
        TypeEntry::ts::<UniGamma>("UniGamma", "UniGamma"),
        TypeEntry::ts::<UniOmega>("UniOmega", "UniOmega"),
        TypeEntry::ts::<QuoteDistance>("QuoteDistance", "QuoteDistance"),
        TypeEntry::ts::<QuoteMetre>("QuoteMetre", "QuoteMetre"),
        TypeEntry::ts::<QuoteMetres>("QuoteMetres", "QuoteMetres"),
        TypeEntry::ts::<ManualPage<u8>>("ManualPage", "ManualPage<u8>"),
        TypeEntry::ts::<ManualPage<Vec<String>>>("ManualPage#nested", "ManualPage<Vec<String>>"),
        TypeEntry::ts::<ManualPage<Option<ManualPage<bool>>>>("ManualPage#twice", "ManualPage<Option<ManualPage<bool>>>"),
        TypeEntry::ts::<ManualOther>("ManualOther", "ManualOther"),
        TypeEntry::ts::<ManualUser>("ManualUser", "ManualUser"),
        // not exportable roots
        TypeEntry::ts::<i32>("prim:i32", "i32"),
        TypeEntry::ts::<Vec<UA>>("prim:Vec<UA>", "Vec<UA>"),
        TypeEntry::ts::<Option<UD>>("prim:Option<UD>", "Option<UD>"),
        TypeEntry::ts::<std::collections::HashMap<String, UA>>("prim:HashMap<String, UA>", "std::collections::HashMap<String, UA>"),
        TypeEntry::ts::<std::collections::BTreeMap<String, UD>>("prim:BTreeMap<String, UD>", "std::collections::BTreeMap<String, UD>"),
        TypeEntry::ts::<(UA, UD)>("prim:(UA, UD)", "(UA, UD)"),
        TypeEntry::ts::<[UA; 2]>("prim:[UA; 2]", "[UA; 2]"),
        TypeEntry::ts::<std::ops::Range<i32>>("prim:Range<i32>", "std::ops::Range<i32>"),
        TypeEntry::ts::<Result<UA, String>>("prim:Result<UA, String>", "Result<UA, String>"),
        TypeEntry::ts::<()>("prim:()", "()"),
        TypeEntry::ts::<String>("prim:String", "String"),
    ]
}

fn main() {
    vsupport::run(registry());
}
