//! Helper derives for generated corpus crates.
//!
//! * `SerdeAttrs`: declares `serde` as an inert helper attribute (so `#[serde(..)]` can be written
//!   on items that do not derive serde's traits – C10/C16 compile batches).
//! * `Samples`: structural value generator (`vsupport::Samples`).

use proc_macro::TokenStream;
use proc_macro2::{TokenStream as TS2, TokenTree};
use quote::{format_ident, quote};
use syn::{parse_macro_input, Attribute, Data, DeriveInput, Fields, GenericParam};

#[proc_macro_derive(SerdeAttrs, attributes(serde))]
pub fn serde_attrs(_: TokenStream) -> TokenStream {
    TokenStream::new()
}

fn has_key(attrs: &[Attribute], names: &[&str], keys: &[&str]) -> bool {
    for a in attrs {
        if !names.iter().any(|n| a.path().is_ident(n)) {
            continue;
        }
        if let syn::Meta::List(l) = &a.meta {
            let mut at_start = true;
            for tt in l.tokens.clone() {
                match &tt {
                    TokenTree::Ident(i) if at_start => {
                        if keys.iter().any(|k| i == k) {
                            return true;
                        }
                        at_start = false;
                    }
                    TokenTree::Punct(p) if p.as_char() == ',' => at_start = true,
                    _ => at_start = false,
                }
            }
        }
    }
    false
}

fn build(ctor: TS2, fields: &Fields, cols_prefix: &str) -> TS2 {
    // returns an expression of type Vec<Self>
    let mut col_defs = vec![];
    let mut col_names = vec![];
    let mut inits = vec![];
    for (j, f) in fields.iter().enumerate() {
        let skipped = has_key(&f.attrs, &["serde"], &["skip", "skip_serializing"]);
        let ty = &f.ty;
        let member = match &f.ident {
            Some(i) => quote!(#i),
            None => {
                let idx = syn::Index::from(j);
                quote!(#idx)
            }
        };
        if skipped {
            inits.push(quote!(#member: ::core::default::Default::default()));
        } else {
            let c = format_ident!("{}{}", cols_prefix, j);
            col_defs.push(quote!(let #c: Vec<#ty> = <#ty as ::vsupport::Samples>::samples(__d);));
            inits.push(quote!(#member: ::vsupport::pick(&#c, __i, #j)));
            col_names.push(c);
        }
    }
    let body = match fields {
        Fields::Unit => quote!(#ctor),
        _ => quote!(#ctor { #(#inits),* }),
    };
    if col_names.is_empty() {
        return quote!(vec![#body]);
    }
    quote!({
        #(#col_defs)*
        let __lens = [#(#col_names.len()),*];
        if __lens.iter().any(|l| *l == 0) {
            Vec::new()
        } else {
            let __n = *__lens.iter().max().unwrap();
            (0..__n).map(|__i| #body).collect::<Vec<_>>()
        }
    })
}

#[proc_macro_derive(Samples, attributes(serde, ts))]
pub fn samples(input: TokenStream) -> TokenStream {
    let input = parse_macro_input!(input as DeriveInput);
    let name = &input.ident;
    let mut generics = input.generics.clone();
    for p in generics.params.iter_mut() {
        if let GenericParam::Type(t) = p {
            t.bounds.push(syn::parse_quote!(::vsupport::Samples));
            t.bounds.push(syn::parse_quote!(::core::clone::Clone));
            t.default = None;
            t.eq_token = None;
        }
    }
    let (impl_g, _, _) = generics.split_for_impl();
    let (_, ty_g, where_g) = input.generics.split_for_impl();

    let body = match &input.data {
        Data::Struct(s) => build(quote!(#name), &s.fields, "__c"),
        Data::Enum(e) => {
            let mut lists = vec![];
            for v in &e.variants {
                if has_key(&v.attrs, &["serde"], &["skip", "skip_serializing"]) {
                    continue;
                }
                let vi = &v.ident;
                lists.push(build(quote!(#name::#vi), &v.fields, "__c"));
            }
            quote!({
                let __lists: Vec<Vec<Self>> = vec![#(#lists),*];
                ::vsupport::round_robin(__lists)
            })
        }
        Data::Union(_) => quote!(Vec::new()),
    };

    quote!(
        impl #impl_g ::vsupport::Samples for #name #ty_g #where_g {
            fn samples(__depth: u32) -> Vec<Self> {
                let __d = __depth.saturating_sub(1);
                let _ = __d;
                #body
            }
        }
    )
    .into()
}
