//! A small TypeScript *type* model on top of swc's parser.
//!
//! * front-end: swc parses modules / types, `conv` maps the AST to [`Ty`]
//! * semantics: [`Env::member`] (is this JSON value an inhabitant of that type),
//!   [`Env::witnesses`] (bounded inhabitant enumeration), free names, module shape.
//!
//! Everything outside the supported grammar becomes `Ty::Unsupported` and is reported as
//! *inconclusive*, never as a verdict.

use std::collections::{BTreeMap, BTreeSet};

use serde_json::{json, Value};

pub mod parse;
pub mod selftest;

#[derive(Clone, Debug, PartialEq)]
pub enum Ty {
    Null,
    Undefined,
    Bool,
    Number,
    BigInt,
    Str,
    Never,
    Any,
    LitStr(String),
    LitNum(f64),
    LitBool(bool),
    Array(Box<Ty>),
    Tuple(Vec<Ty>),
    Object(Obj),
    Union(Vec<Ty>),
    Inter(Vec<Ty>),
    Ref(String, Vec<Ty>),
    Unsupported(String),
}

#[derive(Clone, Debug, PartialEq, Default)]
pub struct Obj {
    pub props: Vec<Prop>,
    pub index: Vec<Index>,
}

#[derive(Clone, Debug, PartialEq)]
pub struct Prop {
    pub name: String,
    pub ty: Ty,
    pub optional: bool,
    /// leading comments attached to this property (text between `/*` and `*/`)
    pub docs: Vec<String>,
}

#[derive(Clone, Debug, PartialEq)]
pub struct Index {
    pub key: Ty,
    pub val: Ty,
    pub optional: bool,
}

#[derive(Clone, Debug, PartialEq)]
pub struct Decl {
    pub name: String,
    pub params: Vec<(String, Option<Ty>)>,
    pub body: Ty,
    pub exported: bool,
    pub docs: Vec<String>,
    /// byte range of the declaration in the parsed source, from `export`/`type` to the closing `;`
    pub span: (usize, usize),
    /// byte offset where the first attached leading block comment starts
    pub doc_start: Option<usize>,
}

#[derive(Clone, Debug, PartialEq)]
pub struct Import {
    pub type_only: bool,
    pub names: Vec<String>,
    pub spec: String,
}

#[derive(Clone, Debug, PartialEq)]
pub enum Item {
    Import(Import),
    Alias(Decl),
    Other(String),
}

#[derive(Clone, Debug, Default)]
pub struct Module {
    pub items: Vec<Item>,
    pub first_line: String,
    pub ends_with_newline: bool,
    /// number of comments in the file that are attached to no declaration / property
    pub stray_comments: usize,
    pub total_comments: usize,
}

impl Module {
    pub fn decls(&self) -> impl Iterator<Item = &Decl> {
        self.items.iter().filter_map(|i| match i {
            Item::Alias(d) => Some(d),
            _ => None,
        })
    }
    pub fn imports(&self) -> impl Iterator<Item = &Import> {
        self.items.iter().filter_map(|i| match i {
            Item::Import(d) => Some(d),
            _ => None,
        })
    }
}

pub const BUILTINS: &[&str] = &["Array", "Record"];

impl Ty {
    /// Walks the type, collecting names of referenced types (not bound by `bound`).
    pub fn free_names(&self, bound: &BTreeSet<String>, out: &mut BTreeSet<String>) {
        match self {
            Ty::Array(t) => t.free_names(bound, out),
            Ty::Tuple(ts) | Ty::Union(ts) | Ty::Inter(ts) => {
                ts.iter().for_each(|t| t.free_names(bound, out))
            }
            Ty::Object(o) => {
                for p in &o.props {
                    p.ty.free_names(bound, out);
                }
                for i in &o.index {
                    i.key.free_names(bound, out);
                    i.val.free_names(bound, out);
                }
            }
            Ty::Ref(n, args) => {
                if !bound.contains(n) && !BUILTINS.contains(&n.as_str()) {
                    out.insert(n.clone());
                }
                args.iter().for_each(|t| t.free_names(bound, out));
            }
            _ => {}
        }
    }

    pub fn has_unsupported(&self) -> Option<String> {
        match self {
            Ty::Unsupported(s) => Some(s.clone()),
            Ty::Array(t) => t.has_unsupported(),
            Ty::Tuple(ts) | Ty::Union(ts) | Ty::Inter(ts) => {
                ts.iter().find_map(|t| t.has_unsupported())
            }
            Ty::Object(o) => o
                .props
                .iter()
                .find_map(|p| p.ty.has_unsupported())
                .or_else(|| {
                    o.index
                        .iter()
                        .find_map(|i| i.key.has_unsupported().or_else(|| i.val.has_unsupported()))
                }),
            Ty::Ref(_, args) => args.iter().find_map(|t| t.has_unsupported()),
            _ => None,
        }
    }

    fn subst(&self, map: &BTreeMap<String, Ty>) -> Ty {
        match self {
            Ty::Array(t) => Ty::Array(Box::new(t.subst(map))),
            Ty::Tuple(ts) => Ty::Tuple(ts.iter().map(|t| t.subst(map)).collect()),
            Ty::Union(ts) => Ty::Union(ts.iter().map(|t| t.subst(map)).collect()),
            Ty::Inter(ts) => Ty::Inter(ts.iter().map(|t| t.subst(map)).collect()),
            Ty::Object(o) => Ty::Object(Obj {
                props: o
                    .props
                    .iter()
                    .map(|p| Prop {
                        name: p.name.clone(),
                        ty: p.ty.subst(map),
                        optional: p.optional,
                        docs: p.docs.clone(),
                    })
                    .collect(),
                index: o
                    .index
                    .iter()
                    .map(|i| Index {
                        key: i.key.subst(map),
                        val: i.val.subst(map),
                        optional: i.optional,
                    })
                    .collect(),
            }),
            Ty::Ref(n, args) if args.is_empty() && map.contains_key(n) => map[n].clone(),
            Ty::Ref(n, args) => Ty::Ref(n.clone(), args.iter().map(|t| t.subst(map)).collect()),
            t => t.clone(),
        }
    }

    /// Structural equality ignoring property docs.
    pub fn strip_docs(&self) -> Ty {
        match self {
            Ty::Array(t) => Ty::Array(Box::new(t.strip_docs())),
            Ty::Tuple(ts) => Ty::Tuple(ts.iter().map(|t| t.strip_docs()).collect()),
            Ty::Union(ts) => Ty::Union(ts.iter().map(|t| t.strip_docs()).collect()),
            Ty::Inter(ts) => Ty::Inter(ts.iter().map(|t| t.strip_docs()).collect()),
            Ty::Object(o) => Ty::Object(Obj {
                props: o
                    .props
                    .iter()
                    .map(|p| Prop {
                        name: p.name.clone(),
                        ty: p.ty.strip_docs(),
                        optional: p.optional,
                        docs: vec![],
                    })
                    .collect(),
                index: o
                    .index
                    .iter()
                    .map(|i| Index {
                        key: i.key.strip_docs(),
                        val: i.val.strip_docs(),
                        optional: i.optional,
                    })
                    .collect(),
            }),
            Ty::Ref(n, a) => Ty::Ref(n.clone(), a.iter().map(|t| t.strip_docs()).collect()),
            t => t.clone(),
        }
    }
}

impl Decl {
    pub fn free_names(&self) -> BTreeSet<String> {
        let bound: BTreeSet<String> = self.params.iter().map(|p| p.0.clone()).collect();
        let mut out = BTreeSet::new();
        self.body.free_names(&bound, &mut out);
        for (_, d) in &self.params {
            if let Some(d) = d {
                d.free_names(&bound, &mut out);
            }
        }
        out
    }
}

// ------------------------------------------------------------------------------------------
// head normal form

#[derive(Clone, Debug)]
pub enum Shape {
    Null,
    Bool,
    Number,
    BigInt,
    Str,
    Any,
    LitStr(String),
    LitNum(f64),
    LitBool(bool),
    Array(Ty),
    Tuple(Vec<Ty>),
    Object(ObjShape),
}

#[derive(Clone, Debug, Default)]
pub struct ObjShape {
    /// property -> (all types it must inhabit, optional)
    pub props: BTreeMap<String, (Vec<Ty>, bool)>,
    pub index: Vec<Index>,
}

#[derive(Clone, Debug, PartialEq)]
pub struct Fail {
    /// JSON path of the deepest failing position
    pub path: Vec<String>,
    pub reason: String,
    /// name of the declaration the failing node textually belongs to (None = the queried type)
    pub in_decl: Option<String>,
    /// declarations owning the failing nodes of the *other* union arms that were tried on the way
    /// (the empty string stands for the queried type itself)
    pub also: Vec<String>,
}

#[derive(Clone, Debug, PartialEq)]
pub enum Verdict {
    Ok,
    Fail(Fail),
    /// the model cannot judge (unsupported construct, unresolved name, runaway expansion)
    Inconclusive(String),
}

#[derive(Clone, Debug, Default)]
pub struct Env {
    pub decls: BTreeMap<String, Decl>,
}

const MAX_EXPANSION: usize = 64;

impl Env {
    pub fn new() -> Self {
        Self::default()
    }
    pub fn add(&mut self, d: Decl) {
        self.decls.insert(d.name.clone(), d);
    }

    fn expand_ref(&self, name: &str, args: &[Ty]) -> Result<Ty, String> {
        if name == "Array" && args.len() == 1 {
            return Ok(Ty::Array(Box::new(args[0].clone())));
        }
        if name == "Record" && args.len() == 2 {
            // Record<K, V>: required for literal keys, plain index signature for string/number
            return Ok(Ty::Object(Obj {
                props: vec![],
                index: vec![Index {
                    key: args[0].clone(),
                    val: args[1].clone(),
                    optional: false,
                }],
            }));
        }
        let d = self
            .decls
            .get(name)
            .ok_or_else(|| format!("unresolved-name:{name}"))?;
        if args.len() > d.params.len() {
            return Err(format!("too-many-type-arguments:{name}"));
        }
        let mut map = BTreeMap::new();
        for (i, (p, def)) in d.params.iter().enumerate() {
            let a = match args.get(i) {
                Some(a) => a.clone(),
                None => match def {
                    Some(d) => d.subst(&map),
                    None => return Err(format!("missing-type-argument:{name}.{p}")),
                },
            };
            map.insert(p.clone(), a);
        }
        Ok(d.body.subst(&map))
    }

    /// Head normal form: the list of alternative shapes a value of `ty` can have.
    pub fn alts(&self, ty: &Ty) -> Result<Vec<Shape>, String> {
        let mut stack = Vec::new();
        self.alts_in(ty, &mut stack)
    }

    fn alts_in(&self, ty: &Ty, stack: &mut Vec<(String, Vec<Ty>)>) -> Result<Vec<Shape>, String> {
        Ok(match ty {
            Ty::Null => vec![Shape::Null],
            Ty::Undefined | Ty::Never => vec![],
            Ty::Bool => vec![Shape::Bool],
            Ty::Number => vec![Shape::Number],
            Ty::BigInt => vec![Shape::BigInt],
            Ty::Str => vec![Shape::Str],
            Ty::Any => vec![Shape::Any],
            Ty::LitStr(s) => vec![Shape::LitStr(s.clone())],
            Ty::LitNum(n) => vec![Shape::LitNum(*n)],
            Ty::LitBool(b) => vec![Shape::LitBool(*b)],
            Ty::Array(t) => vec![Shape::Array((**t).clone())],
            Ty::Tuple(ts) => vec![Shape::Tuple(ts.clone())],
            Ty::Object(o) => {
                let mut s = ObjShape::default();
                for p in &o.props {
                    match s.props.get_mut(&p.name) {
                        // duplicate property inside one literal: TypeScript rejects it; we keep
                        // both constraints
                        Some(e) => {
                            e.0.push(p.ty.clone());
                            e.1 = e.1 && p.optional;
                        }
                        None => {
                            s.props.insert(p.name.clone(), (vec![p.ty.clone()], p.optional));
                        }
                    }
                }
                s.index = o.index.clone();
                vec![Shape::Object(s)]
            }
            Ty::Union(ts) => {
                let mut out = vec![];
                for t in ts {
                    out.extend(self.alts_in(t, stack)?);
                }
                out
            }
            Ty::Inter(ts) => {
                let mut acc: Option<Vec<Shape>> = None;
                for t in ts {
                    let next = self.alts_in(t, stack)?;
                    acc = Some(match acc {
                        None => next,
                        Some(prev) => {
                            let mut out = vec![];
                            for a in &prev {
                                for b in &next {
                                    if let Some(m) = meet(a, b) {
                                        out.push(m);
                                    }
                                }
                            }
                            out
                        }
                    });
                    if let Some(a) = &acc {
                        if a.len() > 4096 {
                            return Err("intersection-too-large".into());
                        }
                    }
                }
                acc.unwrap_or_default()
            }
            Ty::Ref(n, args) => {
                let key = (n.clone(), args.clone());
                if stack.contains(&key) || stack.len() > MAX_EXPANSION {
                    return Err(format!("unguarded-recursion:{n}"));
                }
                let body = self.expand_ref(n, args)?;
                stack.push(key);
                let r = self.alts_in(&body, stack);
                stack.pop();
                r?
            }
            Ty::Unsupported(s) => return Err(format!("unsupported:{s}")),
        })
    }

    /// Is `v` an inhabitant of `ty`?
    pub fn member(&self, v: &Value, ty: &Ty) -> Verdict {
        let mut path = vec![];
        match self.member_in(v, ty, &mut path, &None, 0) {
            Ok(()) => Verdict::Ok,
            Err(MemberErr::Fail(f)) => Verdict::Fail(f),
            Err(MemberErr::Inconclusive(s)) => Verdict::Inconclusive(s),
        }
    }

    /// `decl`: name of the declaration the node `ty` textually belongs to (for failure reports);
    /// `refs`: number of references expanded since the last value constructor was consumed.
    fn member_in(
        &self,
        v: &Value,
        ty: &Ty,
        path: &mut Vec<String>,
        decl: &Option<String>,
        refs: usize,
    ) -> Result<(), MemberErr> {
        match ty {
            Ty::Ref(n, args) if self.decls.contains_key(n) => {
                if refs > MAX_EXPANSION {
                    return Err(MemberErr::Inconclusive(format!("unguarded-recursion:{n}")));
                }
                let body = self.expand_ref(n, args).map_err(MemberErr::Inconclusive)?;
                return self.member_in(v, &body, path, &Some(n.clone()), refs + 1);
            }
            Ty::Union(ts) if !ts.is_empty() => {
                let mut best: Option<Fail> = None;
                let mut inconclusive = None;
                let mut others: Vec<String> = vec![];
                for t in ts {
                    match self.member_in(v, t, path, decl, refs) {
                        Ok(()) => return Ok(()),
                        Err(MemberErr::Fail(f)) => {
                            others.push(f.in_decl.clone().unwrap_or_default());
                            others.extend(f.also.iter().cloned());
                            if best.as_ref().map_or(true, |b| f.path.len() > b.path.len()) {
                                best = Some(f);
                            }
                        }
                        Err(MemberErr::Inconclusive(s)) => inconclusive = Some(s),
                    }
                }
                if let Some(s) = inconclusive {
                    return Err(MemberErr::Inconclusive(s));
                }
                let mut f = best.unwrap();
                others.sort();
                others.dedup();
                f.also = others;
                if ts.len() > 1 && f.path.len() == path.len() {
                    f.reason = format!("matches none of {} union arms (e.g. {})", ts.len(), f.reason);
                }
                return Err(MemberErr::Fail(f));
            }
            _ => {}
        }
        let alts = self.alts(ty).map_err(MemberErr::Inconclusive)?;
        if alts.is_empty() {
            return Err(MemberErr::Fail(Fail {
                path: path.clone(),
                reason: "type is uninhabited (never / contradictory intersection)".into(),
                in_decl: decl.clone(),
                also: vec![],
            }));
        }
        let mut best: Option<Fail> = None;
        let mut inconclusive: Option<String> = None;
        let mut others: Vec<String> = vec![];
        for s in &alts {
            match self.member_shape(v, s, path, decl) {
                Ok(()) => return Ok(()),
                Err(MemberErr::Fail(f)) => {
                    others.push(f.in_decl.clone().unwrap_or_default());
                    others.extend(f.also.iter().cloned());
                    let better = match &best {
                        None => true,
                        Some(b) => f.path.len() > b.path.len(),
                    };
                    if better {
                        best = Some(f);
                    }
                }
                Err(MemberErr::Inconclusive(s)) => inconclusive = Some(s),
            }
        }
        if let Some(s) = inconclusive {
            return Err(MemberErr::Inconclusive(s));
        }
        let mut f = best.unwrap();
        others.sort();
        others.dedup();
        f.also = others;
        if alts.len() > 1 && f.path.len() == path.len() {
            f.reason = format!("matches none of {} alternatives (e.g. {})", alts.len(), f.reason);
        }
        Err(MemberErr::Fail(f))
    }

    fn member_shape(
        &self,
        v: &Value,
        s: &Shape,
        path: &mut Vec<String>,
        decl: &Option<String>,
    ) -> Result<(), MemberErr> {
        let fail = |path: &Vec<String>, reason: String| {
            Err(MemberErr::Fail(Fail {
                path: path.clone(),
                reason,
                in_decl: decl.clone(),
                also: vec![],
            }))
        };
        match s {
            Shape::Any => Ok(()),
            Shape::Null => {
                if v.is_null() {
                    Ok(())
                } else {
                    fail(path, format!("expected null, got {}", kind(v)))
                }
            }
            Shape::Bool => {
                if v.is_boolean() {
                    Ok(())
                } else {
                    fail(path, format!("expected boolean, got {}", kind(v)))
                }
            }
            Shape::Number => {
                if v.is_number() {
                    Ok(())
                } else {
                    fail(path, format!("expected number, got {}", kind(v)))
                }
            }
            Shape::BigInt => {
                if is_json_integer(v) {
                    Ok(())
                } else {
                    fail(path, format!("expected bigint (JSON integer), got {}", kind(v)))
                }
            }
            Shape::Str => {
                if v.is_string() {
                    Ok(())
                } else {
                    fail(path, format!("expected string, got {}", kind(v)))
                }
            }
            Shape::LitStr(l) => {
                if v.as_str() == Some(l.as_str()) {
                    Ok(())
                } else {
                    fail(path, format!("expected literal {l:?}, got {}", short(v)))
                }
            }
            Shape::LitNum(n) => {
                if v.as_f64() == Some(*n) {
                    Ok(())
                } else {
                    fail(path, format!("expected literal {n}, got {}", short(v)))
                }
            }
            Shape::LitBool(b) => {
                if v.as_bool() == Some(*b) {
                    Ok(())
                } else {
                    fail(path, format!("expected literal {b}, got {}", short(v)))
                }
            }
            Shape::Array(t) => match v {
                Value::Array(items) => {
                    for (i, item) in items.iter().enumerate() {
                        path.push(i.to_string());
                        let r = self.member_in(item, t, path, decl, 0);
                        path.pop();
                        r?;
                    }
                    Ok(())
                }
                _ => fail(path, format!("expected array, got {}", kind(v))),
            },
            Shape::Tuple(ts) => match v {
                Value::Array(items) => {
                    if items.len() != ts.len() {
                        return fail(
                            path,
                            format!("expected tuple of length {}, got array of length {}", ts.len(), items.len()),
                        );
                    }
                    for (i, (item, t)) in items.iter().zip(ts).enumerate() {
                        path.push(i.to_string());
                        let r = self.member_in(item, t, path, decl, 0);
                        path.pop();
                        r?;
                    }
                    Ok(())
                }
                _ => fail(path, format!("expected tuple, got {}", kind(v))),
            },
            Shape::Object(o) => match v {
                Value::Object(map) => {
                    for (name, (tys, optional)) in &o.props {
                        match map.get(name) {
                            None => {
                                if !optional {
                                    return fail(path, format!("missing required property {name:?}"));
                                }
                            }
                            Some(pv) => {
                                path.push(name.clone());
                                for t in tys {
                                    let r = self.member_in(pv, t, path, decl, 0);
                                    if r.is_err() {
                                        path.pop();
                                        return r;
                                    }
                                }
                                path.pop();
                            }
                        }
                    }
                    for (k, pv) in map {
                        if o.props.contains_key(k) {
                            continue;
                        }
                        let mut matched = false;
                        for ix in &o.index {
                            if self.key_matches(k, &ix.key).map_err(MemberErr::Inconclusive)? {
                                matched = true;
                                path.push(k.clone());
                                let r = self.member_in(pv, &ix.val, path, decl, 0);
                                path.pop();
                                r?;
                            }
                        }
                        if !matched {
                            return fail(path, format!("excess property {k:?}"));
                        }
                    }
                    // required keys of non-optional index signatures over literal key types
                    for ix in &o.index {
                        if ix.optional {
                            continue;
                        }
                        for lit in self.literal_keys(&ix.key).map_err(MemberErr::Inconclusive)? {
                            if !map.contains_key(&lit) && !o.props.contains_key(&lit) {
                                return fail(path, format!("missing required key {lit:?}"));
                            }
                        }
                    }
                    Ok(())
                }
                _ => fail(path, format!("expected object, got {}", kind(v))),
            },
        }
    }

    fn key_matches(&self, k: &str, key_ty: &Ty) -> Result<bool, String> {
        for s in self.alts(key_ty)? {
            let ok = match s {
                Shape::Str | Shape::Any => true,
                Shape::Number => canonical_number(k),
                Shape::BigInt => canonical_integer(k),
                Shape::Bool => k == "true" || k == "false",
                Shape::LitStr(l) => l == k,
                Shape::LitNum(n) => k.parse::<f64>().ok() == Some(n) && canonical_number(k),
                Shape::LitBool(b) => k == b.to_string(),
                _ => false,
            };
            if ok {
                return Ok(true);
            }
        }
        Ok(false)
    }

    fn literal_keys(&self, key_ty: &Ty) -> Result<Vec<String>, String> {
        let mut out = vec![];
        for s in self.alts(key_ty)? {
            match s {
                Shape::LitStr(l) => out.push(l),
                Shape::LitNum(n) => out.push(fmt_num(n)),
                Shape::LitBool(b) => out.push(b.to_string()),
                _ => {}
            }
        }
        Ok(out)
    }

    // --------------------------------------------------------------------------------------
    // inhabitant enumeration

    /// Bounded enumeration of inhabitants of `ty`. `cap` bounds the list per node.
    pub fn witnesses(&self, ty: &Ty, depth: usize, cap: usize) -> Result<Vec<Value>, String> {
        let mut out = vec![];
        let alts = self.alts(ty)?;
        // at the depth limit prefer shapes that do not need recursion
        for s in &alts {
            let ws = self.shape_witnesses(s, depth, cap)?;
            for w in ws {
                if !out.contains(&w) {
                    out.push(w);
                }
            }
        }
        out.truncate(cap.max(alts.len()));
        Ok(out)
    }

    fn shape_witnesses(&self, s: &Shape, depth: usize, cap: usize) -> Result<Vec<Value>, String> {
        Ok(match s {
            Shape::Null => vec![Value::Null],
            Shape::Bool => vec![json!(true), json!(false)],
            Shape::Number => vec![json!(1), json!(2), json!(100)],
            Shape::BigInt => vec![json!(1), json!(2), json!(100)],
            Shape::Str => vec![json!("a"), json!("b")],
            Shape::Any => vec![Value::Null, json!(1), json!("a")],
            Shape::LitStr(l) => vec![json!(l)],
            Shape::LitNum(n) => vec![num_value(*n)],
            Shape::LitBool(b) => vec![json!(b)],
            Shape::Array(t) => {
                let mut out = vec![json!([])];
                if depth > 0 {
                    let ws = self.witnesses(t, depth - 1, cap)?;
                    for w in ws.iter().take(3) {
                        out.push(json!([w]));
                    }
                    if ws.len() >= 2 {
                        out.push(json!([ws[0], ws[1]]));
                    } else if ws.len() == 1 {
                        out.push(json!([ws[0], ws[0]]));
                    }
                }
                out
            }
            Shape::Tuple(ts) => {
                if ts.is_empty() {
                    return Ok(vec![json!([])]);
                }
                if depth == 0 {
                    return Ok(vec![]);
                }
                let cols: Vec<Vec<Value>> = ts
                    .iter()
                    .map(|t| self.witnesses(t, depth - 1, cap))
                    .collect::<Result<_, _>>()?;
                each_choice(&cols)
                    .into_iter()
                    .map(Value::Array)
                    .collect()
            }
            Shape::Object(o) => {
                let mut required: Vec<(String, Vec<Value>)> = vec![];
                let mut optional: Vec<(String, Vec<Value>)> = vec![];
                if depth == 0 && o.props.values().any(|p| !p.1) {
                    return Ok(vec![]);
                }
                let d = depth.saturating_sub(1);
                for (name, (tys, opt)) in &o.props {
                    let ty = if tys.len() == 1 {
                        tys[0].clone()
                    } else {
                        Ty::Inter(tys.clone())
                    };
                    if *opt && depth == 0 {
                        continue;
                    }
                    let ws = self.witnesses(&ty, d, cap)?;
                    if *opt {
                        if !ws.is_empty() {
                            optional.push((name.clone(), ws));
                        }
                    } else {
                        if ws.is_empty() {
                            return Ok(vec![]); // uninhabited at this depth
                        }
                        required.push((name.clone(), ws));
                    }
                }
                // literal keys of index signatures behave like properties
                let mut open_index: Vec<(Vec<String>, Vec<Value>)> = vec![];
                for ix in &o.index {
                    let lits = self.literal_keys(&ix.key)?;
                    let vals = if depth == 0 {
                        vec![]
                    } else {
                        self.witnesses(&ix.val, d, cap)?
                    };
                    let mut open_keys = vec![];
                    for s in self.alts(&ix.key)? {
                        match s {
                            Shape::Str | Shape::Any => open_keys.push("a".to_string()),
                            Shape::Number | Shape::BigInt => open_keys.push("1".to_string()),
                            Shape::Bool => open_keys.push("true".to_string()),
                            _ => {}
                        }
                    }
                    for l in lits {
                        if o.props.contains_key(&l) {
                            continue;
                        }
                        if ix.optional {
                            if !vals.is_empty() {
                                optional.push((l, vals.clone()));
                            }
                        } else {
                            if vals.is_empty() {
                                return Ok(vec![]);
                            }
                            required.push((l, vals.clone()));
                        }
                    }
                    open_keys.retain(|k| !o.props.contains_key(k));
                    if !open_keys.is_empty() && !vals.is_empty() {
                        open_index.push((open_keys, vals));
                    }
                }
                let base_rows: Vec<Vec<Value>> = if required.is_empty() {
                    vec![vec![]]
                } else {
                    each_choice(&required.iter().map(|r| r.1.clone()).collect::<Vec<_>>())
                };
                let mut out: Vec<Value> = vec![];
                let mk = |row: &Vec<Value>, extra: &[(String, Value)]| {
                    let mut m = serde_json::Map::new();
                    for ((name, _), v) in required.iter().zip(row) {
                        m.insert(name.clone(), v.clone());
                    }
                    for (k, v) in extra {
                        m.insert(k.clone(), v.clone());
                    }
                    Value::Object(m)
                };
                // subsets of optional properties: none, each single, all (all subsets when <= 3)
                let mut subsets: Vec<Vec<usize>> = vec![vec![]];
                let n = optional.len();
                if n > 0 && n <= 3 {
                    subsets = (0..(1usize << n))
                        .map(|m| (0..n).filter(|i| m & (1 << i) != 0).collect())
                        .collect();
                } else if n > 3 {
                    for i in 0..n {
                        subsets.push(vec![i]);
                    }
                    subsets.push((0..n).collect());
                }
                for (ri, row) in base_rows.iter().enumerate() {
                    for (si, sub) in subsets.iter().enumerate() {
                        // full cross product only for the first row; afterwards rotate
                        if ri > 0 && si != ri % subsets.len() {
                            continue;
                        }
                        let extra: Vec<(String, Value)> = sub
                            .iter()
                            .map(|&i| {
                                let (k, ws) = &optional[i];
                                (k.clone(), ws[(ri + si) % ws.len()].clone())
                            })
                            .collect();
                        out.push(mk(row, &extra));
                    }
                }
                // every enumerated value of every optional property appears at least once
                for (k, ws) in &optional {
                    for w in ws.iter().take(8) {
                        let v = mk(&base_rows[0], &[(k.clone(), w.clone())]);
                        if !out.contains(&v) {
                            out.push(v);
                        }
                    }
                }
                // one entry for each open index signature
                for (keys, vals) in &open_index {
                    for (i, v) in vals.iter().enumerate().take(3) {
                        let k = &keys[i % keys.len()];
                        out.push(mk(&base_rows[0], &[(k.clone(), v.clone())]));
                    }
                }
                out
            }
        })
    }

    /// `a ⊆ b` on bounded witnesses: returns the first witness of `a` that is not in `b`.
    pub fn included(&self, a: &Ty, b: &Ty, depth: usize, cap: usize) -> Result<Option<(Value, Fail)>, String> {
        for w in self.witnesses(a, depth, cap)? {
            match self.member(&w, b) {
                Verdict::Ok => {}
                Verdict::Fail(f) => return Ok(Some((w, f))),
                Verdict::Inconclusive(s) => return Err(s),
            }
        }
        Ok(None)
    }
}

enum MemberErr {
    Fail(Fail),
    Inconclusive(String),
}

fn meet(a: &Shape, b: &Shape) -> Option<Shape> {
    use Shape::*;
    Some(match (a, b) {
        (Any, x) | (x, Any) => x.clone(),
        (Null, Null) => Null,
        (Bool, Bool) => Bool,
        (Number, Number) => Number,
        (BigInt, BigInt) => BigInt,
        (Str, Str) => Str,
        (LitStr(x), Str) | (Str, LitStr(x)) => LitStr(x.clone()),
        (LitStr(x), LitStr(y)) if x == y => LitStr(x.clone()),
        (LitNum(x), Number) | (Number, LitNum(x)) => LitNum(*x),
        (LitNum(x), LitNum(y)) if x == y => LitNum(*x),
        (LitBool(x), Bool) | (Bool, LitBool(x)) => LitBool(*x),
        (LitBool(x), LitBool(y)) if x == y => LitBool(*x),
        (Array(x), Array(y)) => Array(Ty::Inter(vec![x.clone(), y.clone()])),
        (Tuple(x), Tuple(y)) if x.len() == y.len() => Tuple(
            x.iter()
                .zip(y)
                .map(|(a, b)| Ty::Inter(vec![a.clone(), b.clone()]))
                .collect(),
        ),
        (Object(x), Object(y)) => {
            let mut o = x.clone();
            for (k, (tys, opt)) in &y.props {
                match o.props.get_mut(k) {
                    Some(e) => {
                        e.0.extend(tys.iter().cloned());
                        e.1 = e.1 && *opt;
                    }
                    None => {
                        o.props.insert(k.clone(), (tys.clone(), *opt));
                    }
                }
            }
            o.index.extend(y.index.iter().cloned());
            Object(o)
        }
        _ => return None,
    })
}

fn each_choice(cols: &[Vec<Value>]) -> Vec<Vec<Value>> {
    if cols.iter().any(|c| c.is_empty()) {
        return vec![];
    }
    let n = cols.iter().map(|c| c.len()).max().unwrap_or(0);
    (0..n)
        .map(|i| cols.iter().map(|c| c[i % c.len()].clone()).collect())
        .collect()
}

fn kind(v: &Value) -> &'static str {
    match v {
        Value::Null => "null",
        Value::Bool(_) => "boolean",
        Value::Number(_) => "number",
        Value::String(_) => "string",
        Value::Array(_) => "array",
        Value::Object(_) => "object",
    }
}

fn short(v: &Value) -> String {
    let s = v.to_string();
    if s.len() > 60 {
        format!("{}…", s.chars().take(60).collect::<String>())
    } else {
        s
    }
}

fn is_json_integer(v: &Value) -> bool {
    match v {
        Value::Number(n) => n.is_i64() || n.is_u64() || n.as_f64().map_or(false, |f| f.fract() == 0.0 && f.is_finite() && !n.to_string().contains('.') && !n.to_string().contains('e')),
        _ => false,
    }
}

fn canonical_integer(k: &str) -> bool {
    let d = k.strip_prefix('-').unwrap_or(k);
    !d.is_empty() && d.bytes().all(|b| b.is_ascii_digit()) && (d == "0" || !d.starts_with('0'))
}

fn canonical_number(k: &str) -> bool {
    canonical_integer(k) || (k.parse::<f64>().map_or(false, |f| f.is_finite()) && !k.trim().is_empty() && k.trim() == k)
}

fn fmt_num(n: f64) -> String {
    if n.fract() == 0.0 && n.abs() < 1e15 {
        format!("{}", n as i64)
    } else {
        format!("{n}")
    }
}

fn num_value(n: f64) -> Value {
    if n.fract() == 0.0 && n.abs() < 1e15 {
        json!(n as i64)
    } else {
        json!(n)
    }
}
