//! swc front-end: source text -> [`Module`] / [`Ty`].

use swc_common::{
    comments::{CommentKind, Comments, SingleThreadedComments},
    sync::Lrc,
    BytePos, FileName, SourceMap, Spanned,
};
use swc_ecma_ast as ast;
use swc_ecma_parser::{lexer::Lexer, Parser, StringInput, Syntax, TsConfig};

use crate::{Decl, Import, Index, Item, Module, Obj, Prop, Ty};

struct Ctx<'a> {
    comments: &'a SingleThreadedComments,
    attached_blocks: usize,
    base: u32,
}

impl Ctx<'_> {
    fn docs_at(&mut self, pos: BytePos) -> Vec<String> {
        self.docs_with_start(pos).0
    }

    fn docs_with_start(&mut self, pos: BytePos) -> (Vec<String>, Option<usize>) {
        let mut out = vec![];
        let mut start = None;
        if let Some(cs) = self.comments.get_leading(pos) {
            for c in cs {
                if c.kind == CommentKind::Block {
                    if start.is_none() {
                        start = Some((c.span.lo.0 - self.base) as usize);
                    }
                    out.push(c.text.to_string());
                    self.attached_blocks += 1;
                }
            }
        }
        (out, start)
    }
}

/// Parse a whole module. `Err` = swc rejected the text (syntax error message).
pub fn parse_module(src: &str) -> Result<Module, String> {
    let cm: Lrc<SourceMap> = Default::default();
    let fm = cm.new_source_file(FileName::Custom("x.ts".into()), src.to_string());
    let comments = SingleThreadedComments::default();
    let lexer = Lexer::new(
        Syntax::Typescript(TsConfig::default()),
        ast::EsVersion::latest(),
        StringInput::from(&*fm),
        Some(&comments),
    );
    let mut parser = Parser::new_from(lexer);
    let module = parser
        .parse_module()
        .map_err(|e| format!("{:?}", e.kind()))?;
    let errs = parser.take_errors();
    if let Some(e) = errs.into_iter().next() {
        return Err(format!("{:?}", e.kind()));
    }

    let mut ctx = Ctx {
        comments: &comments,
        attached_blocks: 0,
        base: fm.start_pos.0,
    };
    let mut items = vec![];
    for it in &module.body {
        items.push(conv_item(it, &mut ctx));
    }
    let total_blocks = {
        let (lead, trail) = comments.borrow_all();
        lead.values()
            .chain(trail.values())
            .flat_map(|v| v.iter())
            .filter(|c| c.kind == CommentKind::Block)
            .count()
    };
    Ok(Module {
        items,
        first_line: src.lines().next().unwrap_or("").to_string(),
        ends_with_newline: src.ends_with('\n'),
        stray_comments: total_blocks.saturating_sub(ctx.attached_blocks),
        total_comments: total_blocks,
    })
}

/// Parse a bare type expression.
pub fn parse_type(src: &str) -> Result<Ty, String> {
    let m = parse_module(&format!("type __T = {src};"))?;
    if m.items.len() != 1 {
        return Err(format!("type text parses to {} statements", m.items.len()));
    }
    match m.items.into_iter().next() {
        Some(Item::Alias(d)) if d.name == "__T" => Ok(d.body),
        other => Err(format!("not a type: {other:?}")),
    }
}

/// Parse a `type X<..> = ...;` declaration (with or without `export`).
pub fn parse_decl(src: &str) -> Result<Decl, String> {
    let m = parse_module(src)?;
    let mut it = m.items.into_iter();
    match (it.next(), it.next()) {
        (Some(Item::Alias(d)), None) => Ok(d),
        (a, b) => Err(format!("not a single type alias: {a:?} {b:?}")),
    }
}

fn conv_item(it: &ast::ModuleItem, ctx: &mut Ctx) -> Item {
    use ast::{Decl as D, ModuleDecl as M, ModuleItem as I, Stmt};
    match it {
        I::ModuleDecl(M::Import(imp)) => {
            let mut names = vec![];
            let mut plain = true;
            for s in &imp.specifiers {
                match s {
                    ast::ImportSpecifier::Named(n) if n.imported.is_none() && !n.is_type_only => {
                        names.push(n.local.sym.to_string())
                    }
                    _ => plain = false,
                }
            }
            if !plain {
                return Item::Other("import-with-non-plain-specifier".into());
            }
            Item::Import(Import {
                type_only: imp.type_only,
                names,
                spec: imp.src.value.to_string(),
            })
        }
        I::ModuleDecl(M::ExportDecl(e)) => match &e.decl {
            D::TsTypeAlias(a) => {
                let (docs, ds) = ctx.docs_with_start(e.span.lo);
                let mut d = conv_alias(a, true, docs, ctx);
                d.span = ((e.span.lo.0 - ctx.base) as usize, (e.span.hi.0 - ctx.base) as usize);
                d.doc_start = ds;
                Item::Alias(d)
            }
            other => Item::Other(format!("export-{}", decl_kind(other))),
        },
        I::Stmt(Stmt::Decl(D::TsTypeAlias(a))) => {
            let (docs, ds) = ctx.docs_with_start(a.span.lo);
            let mut d = conv_alias(a, false, docs, ctx);
            d.span = ((a.span.lo.0 - ctx.base) as usize, (a.span.hi.0 - ctx.base) as usize);
            d.doc_start = ds;
            Item::Alias(d)
        }
        I::Stmt(Stmt::Decl(d)) => Item::Other(decl_kind(d).to_string()),
        I::Stmt(Stmt::Empty(_)) => Item::Other("empty-statement".into()),
        I::Stmt(Stmt::Expr(_)) => Item::Other("expression-statement".into()),
        I::Stmt(Stmt::Block(_)) => Item::Other("block-statement".into()),
        I::Stmt(_) => Item::Other("statement".into()),
        I::ModuleDecl(_) => Item::Other("module-decl".into()),
    }
}

fn decl_kind(d: &ast::Decl) -> &'static str {
    match d {
        ast::Decl::Class(_) => "class",
        ast::Decl::Fn(_) => "function",
        ast::Decl::Var(_) => "var",
        ast::Decl::Using(_) => "using",
        ast::Decl::TsInterface(_) => "interface",
        ast::Decl::TsTypeAlias(_) => "type",
        ast::Decl::TsEnum(_) => "enum",
        ast::Decl::TsModule(_) => "module",
    }
}

fn conv_alias(a: &ast::TsTypeAliasDecl, exported: bool, docs: Vec<String>, ctx: &mut Ctx) -> Decl {
    let params = a
        .type_params
        .as_ref()
        .map(|tp| {
            tp.params
                .iter()
                .map(|p| {
                    (
                        p.name.sym.to_string(),
                        p.default.as_ref().map(|d| conv_ty(d, ctx)),
                    )
                })
                .collect()
        })
        .unwrap_or_default();
    Decl {
        name: a.id.sym.to_string(),
        params,
        body: conv_ty(&a.type_ann, ctx),
        exported,
        docs,
        span: (0, 0),
        doc_start: None,
    }
}

fn conv_ty(t: &ast::TsType, ctx: &mut Ctx) -> Ty {
    use ast::{TsKeywordTypeKind as K, TsType as T};
    match t {
        T::TsKeywordType(k) => match k.kind {
            K::TsAnyKeyword | K::TsUnknownKeyword => Ty::Any,
            K::TsNumberKeyword => Ty::Number,
            K::TsBooleanKeyword => Ty::Bool,
            K::TsBigIntKeyword => Ty::BigInt,
            K::TsStringKeyword => Ty::Str,
            K::TsNullKeyword => Ty::Null,
            K::TsNeverKeyword => Ty::Never,
            K::TsUndefinedKeyword | K::TsVoidKeyword => Ty::Undefined,
            other => Ty::Unsupported(format!("keyword {other:?}")),
        },
        T::TsTypeRef(r) => {
            let name = match &r.type_name {
                ast::TsEntityName::Ident(i) => i.sym.to_string(),
                ast::TsEntityName::TsQualifiedName(_) => {
                    return Ty::Unsupported("qualified name".into())
                }
            };
            let args = r
                .type_params
                .as_ref()
                .map(|p| p.params.iter().map(|t| conv_ty(t, ctx)).collect())
                .unwrap_or_default();
            Ty::Ref(name, args)
        }
        T::TsTypeLit(l) => {
            let mut o = Obj::default();
            for m in &l.members {
                match m {
                    ast::TsTypeElement::TsPropertySignature(p) => {
                        if p.computed {
                            return Ty::Unsupported("computed property".into());
                        }
                        let name = match &*p.key {
                            ast::Expr::Ident(i) => i.sym.to_string(),
                            ast::Expr::Lit(ast::Lit::Str(s)) => s.value.to_string(),
                            ast::Expr::Lit(ast::Lit::Num(n)) => {
                                if n.value.fract() == 0.0 {
                                    format!("{}", n.value as i64)
                                } else {
                                    format!("{}", n.value)
                                }
                            }
                            _ => return Ty::Unsupported("property key".into()),
                        };
                        let docs = ctx.docs_at(p.span.lo);
                        let ty = match &p.type_ann {
                            Some(a) => conv_ty(&a.type_ann, ctx),
                            None => Ty::Any,
                        };
                        o.props.push(Prop {
                            name,
                            ty,
                            optional: p.optional,
                            docs,
                        });
                    }
                    ast::TsTypeElement::TsIndexSignature(ix) => {
                        let key = match ix.params.first() {
                            Some(ast::TsFnParam::Ident(b)) => match &b.type_ann {
                                Some(a) => conv_ty(&a.type_ann, ctx),
                                None => Ty::Any,
                            },
                            _ => return Ty::Unsupported("index signature parameter".into()),
                        };
                        let val = match &ix.type_ann {
                            Some(a) => conv_ty(&a.type_ann, ctx),
                            None => Ty::Any,
                        };
                        o.index.push(Index {
                            key,
                            val,
                            optional: true,
                        });
                    }
                    _ => return Ty::Unsupported("type element".into()),
                }
            }
            Ty::Object(o)
        }
        T::TsMappedType(m) => {
            if m.name_type.is_some() {
                return Ty::Unsupported("mapped type with `as`".into());
            }
            let key = match &m.type_param.constraint {
                Some(c) => conv_ty(c, ctx),
                None => return Ty::Unsupported("mapped type without constraint".into()),
            };
            let val = match &m.type_ann {
                Some(a) => conv_ty(a, ctx),
                None => Ty::Any,
            };
            let pname = m.type_param.name.sym.to_string();
            let mut free = Default::default();
            val.free_names(&Default::default(), &mut free);
            if free.contains(&pname) {
                return Ty::Unsupported("mapped type using its key parameter".into());
            }
            let optional = match m.optional {
                Some(ast::TruePlusMinus::True) | Some(ast::TruePlusMinus::Plus) => true,
                Some(ast::TruePlusMinus::Minus) | None => false,
            };
            Ty::Object(Obj {
                props: vec![],
                index: vec![Index { key, val, optional }],
            })
        }
        T::TsArrayType(a) => Ty::Array(Box::new(conv_ty(&a.elem_type, ctx))),
        T::TsTupleType(tt) => {
            let mut out = vec![];
            for e in &tt.elem_types {
                match &*e.ty {
                    T::TsOptionalType(_) | T::TsRestType(_) => {
                        return Ty::Unsupported("optional/rest tuple element".into())
                    }
                    t => out.push(conv_ty(t, ctx)),
                }
            }
            Ty::Tuple(out)
        }
        T::TsUnionOrIntersectionType(ast::TsUnionOrIntersectionType::TsUnionType(u)) => {
            Ty::Union(u.types.iter().map(|t| conv_ty(t, ctx)).collect())
        }
        T::TsUnionOrIntersectionType(ast::TsUnionOrIntersectionType::TsIntersectionType(u)) => {
            Ty::Inter(u.types.iter().map(|t| conv_ty(t, ctx)).collect())
        }
        T::TsParenthesizedType(p) => conv_ty(&p.type_ann, ctx),
        T::TsLitType(l) => match &l.lit {
            ast::TsLit::Str(s) => Ty::LitStr(s.value.to_string()),
            ast::TsLit::Number(n) => Ty::LitNum(n.value),
            ast::TsLit::Bool(b) => Ty::LitBool(b.value),
            ast::TsLit::BigInt(_) => Ty::Unsupported("bigint literal".into()),
            ast::TsLit::Tpl(t) => {
                if t.types.is_empty() && t.quasis.len() == 1 {
                    match &t.quasis[0].cooked {
                        Some(c) => Ty::LitStr(c.to_string()),
                        None => Ty::Unsupported("template literal".into()),
                    }
                } else {
                    Ty::Unsupported("template literal type".into())
                }
            }
        },
        T::TsTypeOperator(o) => match o.op {
            ast::TsTypeOperatorOp::ReadOnly => conv_ty(&o.type_ann, ctx),
            _ => Ty::Unsupported("type operator".into()),
        },
        other => Ty::Unsupported(format!("{}", ts_kind(other))),
    }
}

fn ts_kind(t: &ast::TsType) -> &'static str {
    use ast::TsType as T;
    match t {
        T::TsThisType(_) => "this type",
        T::TsFnOrConstructorType(_) => "function type",
        T::TsTypeQuery(_) => "typeof",
        T::TsOptionalType(_) => "optional type",
        T::TsRestType(_) => "rest type",
        T::TsConditionalType(_) => "conditional type",
        T::TsInferType(_) => "infer type",
        T::TsIndexedAccessType(_) => "indexed access",
        T::TsTypePredicate(_) => "type predicate",
        T::TsImportType(_) => "import type",
        _ => "other",
    }
}

#[allow(unused)]
fn _span_of(t: &ast::TsType) -> swc_common::Span {
    t.span()
}
