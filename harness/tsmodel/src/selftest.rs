//! Fixed table self-test of the oracle: (declarations, type, value, expected verdict).

use serde_json::{json, Value};

use crate::{parse, Env, Verdict};

pub fn table() -> Vec<(&'static str, &'static str, Value, bool)> {
    let d0 = "";
    let d1 = "type P = { x: number, y?: string | null, }; type L = { v: number, next: L | null }; \
              type G<T, U = string> = { t: T, u: Array<U>, }; type E = \"A\" | { \"B\": [number, string] } | { \"C\": { a: boolean } }; \
              type I = { \"t\": \"H\" } & { [key in string]?: number }; type K = \"k1\" | \"k2\";";
    vec![
        (d0, "number", json!(1), true),
        (d0, "number", json!(1.5), true),
        (d0, "number", json!("1"), false),
        (d0, "bigint", json!(1), true),
        (d0, "bigint", json!(18446744073709551615u64), true),
        (d0, "bigint", json!(1.5), false),
        (d0, "bigint", json!("1"), false),
        (d0, "string", json!("x"), true),
        (d0, "string | null", json!(null), true),
        (d0, "string", json!(null), false),
        (d0, "boolean", json!(false), true),
        (d0, "null", json!(null), true),
        (d0, "null", json!([]), false),
        (d0, "never", json!(null), false),
        (d0, "never[]", json!([]), true),
        (d0, "never[]", json!([1]), false),
        (d0, "Record<string, never>", json!({}), true),
        (d0, "Record<string, never>", json!({"a": 1}), false),
        (d0, "Array<number>", json!([1, 2, 3]), true),
        (d0, "Array<number>", json!([1, "2"]), false),
        (d0, "[number, string]", json!([1, "a"]), true),
        (d0, "[number, string]", json!([1]), false),
        (d0, "[number, string]", json!([1, "a", 2]), false),
        (d0, "[]", json!([]), true),
        (d0, "{ a: number, b?: string, }", json!({"a": 1}), true),
        (d0, "{ a: number, b?: string, }", json!({"a": 1, "b": "x"}), true),
        (d0, "{ a: number, b?: string, }", json!({"a": 1, "b": null}), false),
        (d0, "{ a: number, b?: string, }", json!({"b": "x"}), false),
        (d0, "{ a: number, b?: string, }", json!({"a": 1, "c": 1}), false),
        (d0, "{ \"a-b\": number }", json!({"a-b": 1}), true),
        (d0, "{ [key in string]?: number }", json!({"x": 1, "y": 2}), true),
        (d0, "{ [key in string]?: number }", json!({"x": "1"}), false),
        (d0, "{ [key in number]?: string }", json!({"1": "a"}), true),
        (d0, "{ [key in number]?: string }", json!({"one": "a"}), false),
        (d0, "{ [key in bigint]?: string }", json!({"-12": "a"}), true),
        (d0, "{ [key in bigint]?: string }", json!({"1.5": "a"}), false),
        (d0, "{ [key in \"a\" | \"b\"]?: number }", json!({"a": 1}), true),
        (d0, "{ [key in \"a\" | \"b\"]?: number }", json!({"c": 1}), false),
        (d0, "Record<\"a\" | \"b\", number>", json!({"a": 1}), false),
        (d0, "Record<\"a\" | \"b\", number>", json!({"a": 1, "b": 2}), true),
        (d0, "{ [k: string]: number }", json!({"q": 3}), true),
        (d0, "{ a: number } & { b: string }", json!({"a": 1, "b": "x"}), true),
        (d0, "{ a: number } & { b: string }", json!({"a": 1}), false),
        (d0, "{ a: number } & ({ b: string } | { c: boolean })", json!({"a": 1, "c": true}), true),
        (d0, "{ a: number } & ({ b: string } | { c: boolean })", json!({"a": 1, "b": "x", "c": true}), false),
        (d0, "{ a: number } & (\"A\" | { c: boolean })", json!({"a": 1, "A": null}), false),
        (d0, "{ a: number } & string", json!({"a": 1}), false),
        (d0, "{ a: number } & Record<string, never>", json!({"a": 1}), true),
        (d0, "\"x\" | \"y\"", json!("y"), true),
        (d0, "\"x\" | \"y\"", json!("z"), false),
        (d0, "{ Ok : number } | { Err : string }", json!({"Ok": 1}), true),
        (d0, "{ Ok : number } | { Err : string }", json!({"Err": 1}), false),
        (d1, "P", json!({"x": 1}), true),
        (d1, "P", json!({"x": 1, "y": null}), true),
        (d1, "P", json!({"x": 1, "y": 2}), false),
        (d1, "L", json!({"v": 1, "next": {"v": 2, "next": null}}), true),
        (d1, "L", json!({"v": 1, "next": {"v": 2}}), false),
        (d1, "G<number>", json!({"t": 1, "u": ["a"]}), true),
        (d1, "G<number>", json!({"t": 1, "u": [1]}), false),
        (d1, "G<number, boolean>", json!({"t": 1, "u": [true]}), true),
        (d1, "E", json!("A"), true),
        (d1, "E", json!({"B": [1, "x"]}), true),
        (d1, "E", json!({"B": [1]}), false),
        (d1, "E", json!({"C": {"a": true}}), true),
        (d1, "E", json!({"C": {"a": true}, "B": [1, "x"]}), false),
        (d1, "I", json!({"t": "H", "k": 1}), true),
        (d1, "I", json!({"t": "H", "k": "x"}), false),
        (d1, "I", json!({"k": 1}), false),
        (d1, "{ [key in K]?: number }", json!({"k1": 1}), true),
        (d1, "{ [key in K]?: number }", json!({"k3": 1}), false),
    ]
}

pub fn env_of(decls: &str) -> Result<Env, String> {
    let mut env = Env::new();
    if !decls.trim().is_empty() {
        let m = parse::parse_module(decls)?;
        for d in m.decls() {
            env.add(d.clone());
        }
    }
    Ok(env)
}

/// Returns (checked, failures)
pub fn run() -> (usize, Vec<String>) {
    let mut fails = vec![];
    let mut n = 0;
    for (decls, ty, v, expect) in table() {
        n += 1;
        let env = match env_of(decls) {
            Ok(e) => e,
            Err(e) => {
                fails.push(format!("decls do not parse: {e}"));
                continue;
            }
        };
        let t = match parse::parse_type(ty) {
            Ok(t) => t,
            Err(e) => {
                fails.push(format!("type {ty:?} does not parse: {e}"));
                continue;
            }
        };
        let got = env.member(&v, &t);
        let ok = matches!(got, Verdict::Ok);
        if ok != expect || matches!(got, Verdict::Inconclusive(_)) {
            fails.push(format!("member({v}, {ty}) = {got:?}, expected {expect}"));
        }
        // every witness of a type must be a member of it
        match env.witnesses(&t, 3, 50) {
            Ok(ws) => {
                for w in ws {
                    n += 1;
                    if env.member(&w, &t) != Verdict::Ok {
                        fails.push(format!("witness {w} of {ty} is not a member"));
                    }
                }
            }
            Err(e) => fails.push(format!("witnesses({ty}) inconclusive: {e}")),
        }
    }
    // syntax rejections
    for bad in [
        "export type A = { \"a\"b\": number };",
        "export type A = { : number };",
        "/** x */ y */\nexport type A = number;",
        "export type A = { \"t\": \"H\" [key in string]?: number };",
    ] {
        n += 1;
        if parse::parse_module(bad).is_ok() {
            fails.push(format!("swc accepted malformed module {bad:?}"));
        }
    }
    (n, fails)
}

#[cfg(test)]
mod tests {
    #[test]
    fn oracle_table() {
        let (n, fails) = super::run();
        assert!(fails.is_empty(), "{n} checked, failures:\n{}", fails.join("\n"));
    }
}
