//! Structural sample values for corpus types.

use std::{
    collections::{BTreeMap, BTreeSet, HashMap, HashSet},
    hash::Hash,
    sync::atomic::{AtomicU64, Ordering},
};

pub trait Samples: Sized {
    fn samples(depth: u32) -> Vec<Self>;
}

/// Seed-dependent rotation used by `pick` so different seeds combine field values differently.
pub static ROTATION: AtomicU64 = AtomicU64::new(0);

pub const CAP: usize = 14;

pub fn pick<T: Clone>(col: &[T], i: usize, j: usize) -> T {
    let rot = ROTATION.load(Ordering::Relaxed) as usize;
    // column j is shifted by rot*j so that different seeds pair values differently, while
    // i = 0..max_len still visits every element of every column at least once
    col[(i + (rot % 7) * j) % col.len()].clone()
}

pub fn round_robin<T>(lists: Vec<Vec<T>>) -> Vec<T> {
    let cap = CAP.max(lists.len());
    let mut iters: Vec<_> = lists.into_iter().map(|l| l.into_iter()).collect();
    let mut out = vec![];
    loop {
        let mut any = false;
        for it in iters.iter_mut() {
            if let Some(x) = it.next() {
                any = true;
                if out.len() < cap {
                    out.push(x);
                }
            }
        }
        if !any || out.len() >= cap {
            break;
        }
    }
    out
}

/// When set, leaves only take values that every Rust leaf type behind the same TypeScript keyword can
/// represent (`number`/`bigint`: 1, 2, 100; `string`: one ASCII character) – used by C02, where values
/// may move between union arms.
pub static SAFE_LEAVES: std::sync::atomic::AtomicBool = std::sync::atomic::AtomicBool::new(false);

fn safe() -> bool {
    SAFE_LEAVES.load(Ordering::Relaxed)
}

macro_rules! leaf {
    ($($t:ty => [$($v:expr),*] / [$($s:expr),*]);* $(;)?) => {$(
        impl Samples for $t {
            fn samples(_: u32) -> Vec<Self> {
                if safe() { vec![$($s),*] } else { vec![$($v),*] }
            }
        }
    )*};
}

leaf! {
    u8 => [0, 7, u8::MAX] / [1, 2, 100]; i8 => [i8::MIN, 0, i8::MAX] / [1, 2, 100];
    u16 => [0, 300, u16::MAX] / [1, 2, 100]; i16 => [i16::MIN, 0, i16::MAX] / [1, 2, 100];
    u32 => [0, 70000, u32::MAX] / [1, 2, 100]; i32 => [i32::MIN, 0, i32::MAX] / [1, 2, 100];
    u64 => [0, 1, u64::MAX] / [1, 2, 100]; i64 => [i64::MIN, 0, i64::MAX] / [1, 2, 100];
    u128 => [0, 5, u64::MAX as u128] / [1, 2, 100]; i128 => [i64::MIN as i128, 0, i64::MAX as i128] / [1, 2, 100];
    usize => [0, 9, u32::MAX as usize] / [1, 2, 100]; isize => [-9, 0, i32::MAX as isize] / [1, 2, 100];
    f32 => [0.0, 1.5, -2.25] / [1.0, 2.0]; f64 => [0.0, 1.5e10, -2.25] / [1.0, 2.0, 100.0];
    bool => [true, false] / [true, false];
    char => ['a', 'é', '"'] / ['a', 'b'];
    String => [String::new(), "hello".to_string(), "q\"uo\\te ü".to_string()] / ["a".to_string(), "b".to_string()];
    () => [()] / [()];
}

impl<T: Samples> Samples for Option<T> {
    fn samples(depth: u32) -> Vec<Self> {
        let mut out = vec![None];
        if depth > 0 {
            out.extend(T::samples(depth).into_iter().take(4).map(Some));
        }
        out
    }
}

impl<T> Samples for std::marker::PhantomData<T> {
    fn samples(_depth: u32) -> Vec<Self> {
        vec![std::marker::PhantomData]
    }
}

impl<T: Samples> Samples for Box<T> {
    fn samples(depth: u32) -> Vec<Self> {
        T::samples(depth).into_iter().map(Box::new).collect()
    }
}

impl<T: Samples> Samples for std::rc::Rc<T> {
    fn samples(depth: u32) -> Vec<Self> {
        T::samples(depth).into_iter().map(std::rc::Rc::new).collect()
    }
}

impl<T: Samples> Samples for std::sync::Arc<T> {
    fn samples(depth: u32) -> Vec<Self> {
        T::samples(depth).into_iter().map(std::sync::Arc::new).collect()
    }
}

impl<T: Samples + Clone> Samples for Vec<T> {
    fn samples(depth: u32) -> Vec<Self> {
        let mut out = vec![vec![]];
        if depth > 0 {
            let xs = T::samples(depth);
            if !xs.is_empty() {
                out.push(vec![xs[0].clone()]);
                if xs.len() > 1 {
                    out.push(xs.iter().skip(1).take(3).cloned().collect());
                } else {
                    out.push(vec![xs[0].clone(), xs[0].clone()]);
                }
            }
        }
        out
    }
}

impl<T: Samples + Clone, const N: usize> Samples for [T; N] {
    fn samples(depth: u32) -> Vec<Self> {
        let xs = T::samples(depth);
        if xs.is_empty() {
            return if N == 0 {
                vec![std::array::from_fn(|_| unreachable!())]
            } else {
                vec![]
            };
        }
        (0..xs.len().min(3))
            .map(|s| std::array::from_fn(|i| xs[(i + s) % xs.len()].clone()))
            .collect()
    }
}

macro_rules! tuple {
    ($($n:ident $i:tt),*) => {
        impl<$($n: Samples + Clone),*> Samples for ($($n,)*) {
            fn samples(depth: u32) -> Vec<Self> {
                $(let $n = <$n as Samples>::samples(depth);)*
                let lens = [$($n.len()),*];
                if lens.iter().any(|l| *l == 0) { return vec![]; }
                let n = *lens.iter().max().unwrap();
                (0..n).map(|i| ($(pick(&$n, i, $i),)*)).collect()
            }
        }
    };
}
#[allow(non_snake_case)]
mod tuples {
    use super::*;
    tuple!(A 0);
    tuple!(A 0, B 1);
    tuple!(A 0, B 1, C 2);
    tuple!(A 0, B 1, C 2, D 3);
}

fn map_samples<K: Samples + Clone, V: Samples + Clone, M: Default + Extend<(K, V)>>(depth: u32) -> Vec<M> {
    let mut out = vec![M::default()];
    if depth > 0 {
        let ks = K::samples(depth);
        let vs = V::samples(depth);
        if !ks.is_empty() && !vs.is_empty() {
            let mut m = M::default();
            m.extend([(ks[0].clone(), vs[0].clone())]);
            out.push(m);
            let mut m = M::default();
            m.extend(
                ks.iter()
                    .enumerate()
                    .take(3)
                    .map(|(i, k)| (k.clone(), vs[(i + 1) % vs.len()].clone())),
            );
            out.push(m);
        }
    }
    out
}

impl<K: Samples + Clone + Eq + Hash, V: Samples + Clone> Samples for HashMap<K, V> {
    fn samples(depth: u32) -> Vec<Self> {
        map_samples(depth)
    }
}
impl<K: Samples + Clone + Ord, V: Samples + Clone> Samples for BTreeMap<K, V> {
    fn samples(depth: u32) -> Vec<Self> {
        map_samples(depth)
    }
}
impl<T: Samples + Clone + Eq + Hash> Samples for HashSet<T> {
    fn samples(depth: u32) -> Vec<Self> {
        Vec::<T>::samples(depth).into_iter().map(|v| v.into_iter().collect()).collect()
    }
}
impl<T: Samples + Clone + Ord> Samples for BTreeSet<T> {
    fn samples(depth: u32) -> Vec<Self> {
        Vec::<T>::samples(depth).into_iter().map(|v| v.into_iter().collect()).collect()
    }
}
