//! Runtime side of the verification harness: type registry, monitors, event log.

extern crate self as vsupport;

use std::{
    any::TypeId,
    cell::RefCell,
    collections::{BTreeMap, HashSet},
    io::Write,
    panic::{catch_unwind, AssertUnwindSafe},
    path::{Path, PathBuf},
};

pub use serde;
pub use serde_json;
use serde_json::{json, Value};
pub use ts_rs;
use ts_rs::{TypeVisitor, TS};
pub use tsmodel;
pub use vderive::{Samples, SerdeAttrs};

pub mod monitors;
pub mod rng;
pub mod samples;
pub use samples::{pick, round_robin, Samples};

// ------------------------------------------------------------------------------------------
// panic capture

thread_local! {
    static LAST_PANIC: RefCell<Option<String>> = const { RefCell::new(None) };
}

pub fn install_quiet_panic_hook() {
    std::panic::set_hook(Box::new(|info| {
        let msg = if let Some(s) = info.payload().downcast_ref::<&str>() {
            s.to_string()
        } else if let Some(s) = info.payload().downcast_ref::<String>() {
            s.clone()
        } else {
            "<non-string panic>".to_string()
        };
        let loc = info
            .location()
            .map(|l| format!("{}:{}", l.file(), l.line()))
            .unwrap_or_default();
        LAST_PANIC.with(|p| *p.borrow_mut() = Some(format!("{msg} @ {loc}")));
    }));
}

/// Run `f`, turning a panic into `Err(message)`.
pub fn guarded<T>(f: impl FnOnce() -> T) -> Result<T, String> {
    match catch_unwind(AssertUnwindSafe(f)) {
        Ok(v) => Ok(v),
        Err(_) => Err(LAST_PANIC
            .with(|p| p.borrow_mut().take())
            .unwrap_or_else(|| "<panic>".into())),
    }
}

// ------------------------------------------------------------------------------------------
// registry

#[derive(Clone, Debug)]
pub struct DepDecl {
    pub ident: String,
    pub name: String,
    pub decl: Result<String, String>,
    pub docs: Option<String>,
    pub output_path: PathBuf,
    pub type_id: TypeId,
}

/// Walks `visit_dependencies` transitively, like the exporter does.
#[derive(Default)]
pub struct Collector {
    seen: HashSet<TypeId>,
    pub decls: Vec<DepDecl>,
}

impl Collector {
    pub fn root<T: TS + 'static + ?Sized>(&mut self) {
        self.visit::<T>();
    }
}

impl TypeVisitor for Collector {
    fn visit<T: TS + 'static + ?Sized>(&mut self) {
        let Some(output_path) = guarded(|| T::output_path()).ok().flatten() else {
            return;
        };
        if !self.seen.insert(TypeId::of::<T>()) {
            return;
        }
        self.decls.push(DepDecl {
            ident: guarded(|| T::ident()).unwrap_or_else(|e| format!("<panic {e}>")),
            name: guarded(|| T::name()).unwrap_or_else(|e| format!("<panic {e}>")),
            decl: guarded(|| T::decl()),
            docs: T::DOCS.map(|s| s.to_string()),
            output_path,
            type_id: TypeId::of::<T>(),
        });
        let _ = guarded(|| T::visit_dependencies(self));
    }
}

#[derive(Clone, Debug)]
pub struct DepInfo {
    pub ts_name: String,
    pub output_path: PathBuf,
    pub type_id: TypeId,
}

#[derive(Clone)]
pub struct SerdeFns {
    /// serialized samples: Ok(json) | Err(serde error)
    pub samples: fn(u32) -> Vec<Result<Value, String>>,
    /// deserialize from JSON text, re-serialize
    pub roundtrip: Option<fn(&str) -> Result<Value, String>>,
}

#[derive(Clone)]
pub struct TypeEntry {
    pub id: String,
    pub rust: String,
    pub type_id: TypeId,
    pub name: fn() -> String,
    pub ident: fn() -> String,
    pub decl: fn() -> String,
    pub decl_concrete: fn() -> String,
    pub inline: fn() -> String,
    pub inline_flattened: fn() -> String,
    pub docs: Option<&'static str>,
    pub output_path: fn() -> Option<PathBuf>,
    pub default_output_path: fn() -> Option<PathBuf>,
    pub dependencies: fn() -> Vec<DepInfo>,
    pub collect: fn() -> Vec<DepDecl>,
    pub export: fn() -> Result<(), String>,
    pub export_all: fn() -> Result<(), String>,
    pub export_all_to: fn(&Path) -> Result<(), String>,
    pub export_to_string: fn() -> Result<String, String>,
    pub serde: Option<SerdeFns>,
    /// TypeScript names of the type arguments of a generic instantiation (set by the generator)
    pub arg_names: Vec<fn() -> String>,
}

fn deps_of<T: TS + 'static + ?Sized>() -> Vec<DepInfo> {
    T::dependencies()
        .into_iter()
        .map(|d| DepInfo {
            ts_name: d.ts_name,
            output_path: d.output_path,
            type_id: d.type_id,
        })
        .collect()
}

fn collect_of<T: TS + 'static + ?Sized>() -> Vec<DepDecl> {
    let mut c = Collector::default();
    c.root::<T>();
    c.decls
}

fn err_s<E: std::fmt::Display + std::fmt::Debug>(e: E) -> String {
    format!("{e:?}")
}

impl TypeEntry {
    pub fn ts<T: TS + 'static + ?Sized>(id: &str, rust: &str) -> Self {
        TypeEntry {
            id: id.to_string(),
            rust: rust.to_string(),
            type_id: TypeId::of::<T>(),
            name: T::name,
            ident: T::ident,
            decl: T::decl,
            decl_concrete: T::decl_concrete,
            inline: T::inline,
            inline_flattened: T::inline_flattened,
            docs: T::DOCS,
            output_path: T::output_path,
            default_output_path: T::default_output_path,
            dependencies: deps_of::<T>,
            collect: collect_of::<T>,
            export: || T::export().map_err(err_s),
            export_all: || T::export_all().map_err(err_s),
            export_all_to: |p| T::export_all_to(p).map_err(err_s),
            export_to_string: || T::export_to_string().map_err(err_s),
            serde: None,
            arg_names: vec![],
        }
    }

    pub fn args(mut self, names: Vec<fn() -> String>) -> Self {
        self.arg_names = names;
        self
    }

    pub fn ser<T: TS + 'static + serde::Serialize + Samples>(id: &str, rust: &str) -> Self {
        let mut e = Self::ts::<T>(id, rust);
        e.serde = Some(SerdeFns {
            samples: |d| {
                T::samples(d)
                    .iter()
                    .map(|v| serde_json::to_value(v).map_err(|e| e.to_string()))
                    .collect()
            },
            roundtrip: None,
        });
        e
    }

    pub fn serde<T: TS + 'static + serde::Serialize + serde::de::DeserializeOwned + Samples>(
        id: &str,
        rust: &str,
    ) -> Self {
        let mut e = Self::ser::<T>(id, rust);
        e.serde.as_mut().unwrap().roundtrip = Some(|text| {
            let v: T = serde_json::from_str(text).map_err(|e| e.to_string())?;
            serde_json::to_value(&v).map_err(|e| format!("reserialize: {e}"))
        });
        e
    }
}

// ------------------------------------------------------------------------------------------
// event log

pub struct Log {
    out: Box<dyn Write>,
    pub events: usize,
}

impl Log {
    pub fn create(path: &str) -> Self {
        let out: Box<dyn Write> = if path == "-" {
            Box::new(std::io::stdout())
        } else {
            Box::new(std::io::BufWriter::new(
                std::fs::File::create(path).expect("cannot create event log"),
            ))
        };
        Log { out, events: 0 }
    }
    pub fn emit(&mut self, v: Value) {
        self.events += 1;
        writeln!(self.out, "{v}").expect("event log write");
    }
    pub fn finish(mut self) {
        self.out.flush().unwrap();
    }
    /// Marks the type about to be examined (flushed, so that a crash of the process can be attributed).
    pub fn start(&mut self, id: &str, rust: &str) {
        writeln!(self.out, "{}", json!({"ev": "start", "id": id, "rust": rust})).expect("event log write");
        self.out.flush().expect("event log flush");
    }
}

#[derive(Clone, Debug, Default)]
pub struct Args {
    pub monitor: String,
    pub out: String,
    pub seed: u64,
    pub tier: String,
    pub scratch: PathBuf,
    pub extra: BTreeMap<String, String>,
}

impl Args {
    pub fn parse() -> Self {
        let mut a = Args {
            out: "-".into(),
            tier: "quick".into(),
            scratch: std::env::temp_dir(),
            ..Default::default()
        };
        let mut it = std::env::args().skip(1);
        while let Some(k) = it.next() {
            let mut val = || it.next().unwrap_or_else(|| panic!("missing value for {k}"));
            match k.as_str() {
                "--monitor" => a.monitor = val(),
                "--out" => a.out = val(),
                "--seed" => a.seed = val().parse().expect("seed"),
                "--tier" => a.tier = val(),
                "--scratch" => a.scratch = PathBuf::from(val()),
                other if other.starts_with("--") => {
                    let v = val();
                    a.extra.insert(other[2..].to_string(), v);
                }
                other => panic!("unexpected argument {other}"),
            }
        }
        a
    }
    pub fn thorough(&self) -> bool {
        self.tier == "thorough"
    }
    pub fn get(&self, k: &str) -> Option<&str> {
        self.extra.get(k).map(|s| s.as_str())
    }
    pub fn num(&self, k: &str, default: u64) -> u64 {
        self.get(k).map(|v| v.parse().expect("numeric arg")).unwrap_or(default)
    }
}

/// Entry point of every corpus binary.
pub fn run(registry: Vec<TypeEntry>) {
    let args = Args::parse();
    samples::ROTATION.store(args.seed, std::sync::atomic::Ordering::Relaxed);
    install_quiet_panic_hook();
    let mut log = Log::create(&args.out);
    let t0 = std::time::Instant::now();
    let res = guarded(|| monitors::dispatch(&args, &registry, &mut log));
    let status = match res {
        Ok(()) => json!({"ev": "end", "monitor": args.monitor, "ok": true, "events": log.events, "wall_s": t0.elapsed().as_secs_f64()}),
        Err(e) => json!({"ev": "end", "monitor": args.monitor, "ok": false, "harness_panic": e, "events": log.events}),
    };
    log.emit(status);
    log.finish();
}
