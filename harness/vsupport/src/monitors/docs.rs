//! C15 (and part of C04): what swc sees in `export_to_string()` of every registered type – the declaration with
//! documentation stripped, the comments attached to the declaration and to its properties – plus merge pairs.

use std::collections::BTreeMap;

use serde_json::{json, Value};
use ts_rs::verif;
use tsmodel::{parse, Decl, Ty};

use super::fsutil::clear_dir;
use crate::{guarded, Args, Log, TypeEntry};

fn prop_docs(ty: &Ty, out: &mut BTreeMap<String, Vec<String>>) {
    match ty {
        Ty::Object(o) => {
            for p in &o.props {
                if !p.docs.is_empty() {
                    out.entry(p.name.clone()).or_default().extend(p.docs.iter().cloned());
                }
                prop_docs(&p.ty, out);
            }
            for i in &o.index {
                prop_docs(&i.val, out);
            }
        }
        Ty::Array(t) => prop_docs(t, out),
        Ty::Tuple(ts) | Ty::Union(ts) | Ty::Inter(ts) => ts.iter().for_each(|t| prop_docs(t, out)),
        Ty::Ref(_, a) => a.iter().for_each(|t| prop_docs(t, out)),
        _ => {}
    }
}

pub fn decl_info(d: &Decl) -> Value {
    let mut pd = BTreeMap::new();
    prop_docs(&d.body, &mut pd);
    json!({"name": d.name, "params": d.params.iter().map(|p| p.0.clone()).collect::<Vec<_>>(),
        "body": format!("{:?}", d.body.strip_docs()), "docs": d.docs, "prop_docs": pd, "exported": d.exported})
}

pub fn declinfo(args: &Args, reg: &[TypeEntry], log: &mut Log) {
    for e in reg {
        log.start(&e.id, &e.rust);
        let text = guarded(e.export_to_string);
        let ev = match &text {
            Err(p) => json!({"ev": "declinfo", "id": e.id, "rust": e.rust, "outcome": "panic", "msg": p}),
            Ok(Err(err)) => json!({"ev": "declinfo", "id": e.id, "rust": e.rust, "outcome": "err", "msg": err}),
            Ok(Ok(t)) => match parse::parse_module(t) {
                Err(pe) => json!({"ev": "declinfo", "id": e.id, "rust": e.rust, "outcome": "unparseable", "msg": pe, "text": t}),
                Ok(m) => {
                    let decls: Vec<Value> = m.decls().map(decl_info).collect();
                    json!({"ev": "declinfo", "id": e.id, "rust": e.rust, "outcome": "ok", "decls": decls,
                        "items": m.items.iter().map(|i| match i { tsmodel::Item::Import(_) => "import", tsmodel::Item::Alias(_) => "alias", tsmodel::Item::Other(_) => "other" }).collect::<Vec<_>>(),
                        "stray_comments": m.stray_comments, "total_comments": m.total_comments,
                        "first_line": m.first_line, "ends_with_newline": m.ends_with_newline,
                        "docs_const": e.docs, "text": if t.len() < 1500 { Some(t.clone()) } else { None }})
                }
            },
        };
        log.emit(ev);
    }
    // merge pairs: entries sharing an output file are exported in both orders
    let groups = super::merge::shared_files(reg);
    let root = args.scratch.join("c15merge");
    std::fs::create_dir_all(&root).unwrap();
    let out = root.join("out");
    std::env::set_var("TS_RS_EXPORT_DIR", &out);
    for (file, group) in groups {
        if group.len() != 2 {
            continue;
        }
        let mut results = vec![];
        for order in [[0usize, 1], [1, 0]] {
            clear_dir(&root);
            verif::reset_registry();
            let mut outcomes = vec![];
            for k in order {
                outcomes.push(format!("{:?}", guarded(reg[group[k]].export)));
            }
            let text = std::fs::read_to_string(out.join(&file)).unwrap_or_default();
            let parsed = match parse::parse_module(&text) {
                Err(pe) => json!({"parse_error": pe}),
                Ok(m) => json!({"decls": m.decls().map(decl_info).collect::<Vec<_>>(), "stray_comments": m.stray_comments}),
            };
            results.push(json!({"order": order.iter().map(|&k| reg[group[k]].id.clone()).collect::<Vec<_>>(), "outcomes": outcomes,
                "parsed": parsed, "text": text}));
        }
        log.emit(json!({"ev": "mergepair", "file": file, "members": group.iter().map(|&i| reg[i].id.clone()).collect::<Vec<_>>(), "runs": results}));
    }
    std::env::remove_var("TS_RS_EXPORT_DIR");
    let _ = std::fs::remove_dir_all(&root);
}

/// `--input file`: JSON lines with the output of `parse_docs`; each is put in front of a declaration and parsed.
pub fn docscheck(args: &Args, log: &mut Log) {
    let path = args.get("input").expect("--input");
    let text = std::fs::read_to_string(path).expect("docs input");
    for line in text.lines() {
        let Ok(v) = serde_json::from_str::<Value>(line) else { continue };
        let id = v["id"].as_str().unwrap_or("").to_string();
        let problem: Option<String> = match v["outcome"].as_str() {
            Some("ok") => {
                let docs = v["docs"].as_str().unwrap_or("");
                let module = format!("{docs}export type A = number;\n");
                match parse::parse_module(&module) {
                    Err(e) => Some(format!("module-does-not-parse: {e}")),
                    Ok(m) => {
                        let decls: Vec<&Decl> = m.decls().collect();
                        if m.items.len() != 1 || decls.len() != 1 {
                            Some(format!("docs-read-as-code: {} items", m.items.len()))
                        } else if m.stray_comments > 0 {
                            Some("detached-comment".to_string())
                        } else if !docs.is_empty() && decls[0].docs.len() != 1 {
                            Some(format!("comment-blocks={}", decls[0].docs.len()))
                        } else if decls[0].body != Ty::Number {
                            Some("type-changed".to_string())
                        } else {
                            None
                        }
                    }
                }
            }
            Some(other) => Some(other.to_string()),
            None => Some("no-outcome".into()),
        };
        let short = problem.as_ref().map(|p| p.split(':').next().unwrap_or("").to_string());
        log.emit(json!({"ev": "docscheck", "id": id, "problem": short, "detail": problem, "docs": v["docs"]}));
    }
}
