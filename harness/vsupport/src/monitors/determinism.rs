//! C13: everything observable is a function of the source and the configuration.
//! The same source is compiled as several packages (fresh macro processes); each binary dumps every public string and
//! exports everything with 1, 4 and 16 threads in seeded shuffled orders, twice.

use std::sync::{Arc, Barrier};

use serde_json::json;
use ts_rs::verif;

use super::fsutil::{clear_dir, files_only, snapshot, tree_json};
use crate::{guarded, rng::Rng, Args, Log, TypeEntry};

fn digest(s: &str) -> String {
    // FNV-1a, enough to compare
    let mut h: u64 = 0xcbf29ce484222325;
    for b in s.bytes() {
        h ^= b as u64;
        h = h.wrapping_mul(0x100000001b3);
    }
    format!("{h:016x}")
}

static WRITES: std::sync::Mutex<Vec<(std::path::PathBuf, String)>> = std::sync::Mutex::new(vec![]);

fn record_write(point: &'static str, path: &std::path::Path, type_name: &str) {
    if point == "written" {
        WRITES.lock().unwrap().push((path.to_owned(), type_name.to_string()));
    }
}

pub fn c13(args: &Args, reg: &[TypeEntry], log: &mut Log) {
    // every package asks in its own order (what is asked first must not matter); the verdict compares by id
    let exe = std::env::args().next().unwrap_or_default();
    let mut ask: Vec<usize> = (0..reg.len()).collect();
    let mut order_rng = Rng::new(args.seed ^ u64::from_str_radix(&digest(&exe), 16).unwrap_or(1));
    order_rng.shuffle(&mut ask);
    let asked: Vec<TypeEntry> = ask.iter().map(|&i| reg[i].clone()).collect();
    log.emit(json!({"ev": "dump-order", "first": asked.iter().take(5).map(|e| e.id.clone()).collect::<Vec<_>>()}));
    super::dump(&asked, log);
    let root = args.scratch.join("c13/deep/cwd");
    std::fs::create_dir_all(&root).unwrap();
    std::env::set_current_dir(&root).unwrap();
    std::env::remove_var("TS_RS_EXPORT_DIR");
    let mut rng = Rng::new(args.seed ^ 0xC13);
    // entries whose id starts with `nx:` cannot be exported (they only take part in the dump)
    let all_reg = reg;
    let exportable: Vec<TypeEntry> = all_reg.iter().filter(|e| !e.id.starts_with("nx:")).cloned().collect();
    let reg: &[TypeEntry] = &exportable;
    let mut first: Option<(String, super::fsutil::Tree)> = None;
    for threads in [1usize, 4, 16] {
        for rep in 0..2 {
            clear_dir(&root);
            verif::reset_registry();
            // the same directory, named relatively (the default ./bindings) in one repetition and absolutely in the other
            if rep == 1 {
                std::env::set_var("TS_RS_EXPORT_DIR", root.join("bindings"));
            } else {
                std::env::remove_var("TS_RS_EXPORT_DIR");
            }
            let mut order: Vec<usize> = (0..reg.len()).collect();
            rng.shuffle(&mut order);
            let chunks: Vec<Vec<usize>> = (0..threads).map(|t| order.iter().copied().skip(t).step_by(threads).collect()).collect();
            let barrier = Arc::new(Barrier::new(threads));
            let errors: Vec<String> = std::thread::scope(|s| {
                let hs: Vec<_> = chunks
                    .iter()
                    .map(|chunk| {
                        let b = barrier.clone();
                        s.spawn(move || {
                            b.wait();
                            let mut errs = vec![];
                            for &i in chunk {
                                // the way `#[ts(export)]` tests do it
                                match guarded(reg[i].export_all) {
                                    Ok(Ok(())) => {}
                                    other => errs.push(format!("{}: {other:?}", reg[i].id)),
                                }
                            }
                            errs
                        })
                    })
                    .collect();
                hs.into_iter().flat_map(|h| h.join().unwrap_or_default()).collect()
            });
            let tree = files_only(&snapshot(&root));
            let text = tree_json(&tree).to_string();
            let d = digest(&text);
            let same_as_first = match &first {
                None => {
                    first = Some((d.clone(), tree.clone()));
                    true
                }
                Some((d0, _)) => d0 == &d,
            };
            let mut differing = vec![];
            if !same_as_first {
                if let Some((_, t0)) = &first {
                    for (p, b) in &tree {
                        if t0.get(p) != Some(b) {
                            differing.push(json!({"path": p, "now": String::from_utf8_lossy(b), "first": t0.get(p).map(|x| String::from_utf8_lossy(x).to_string())}));
                        }
                    }
                    for p in t0.keys() {
                        if !tree.contains_key(p) {
                            differing.push(json!({"path": p, "now": null}));
                        }
                    }
                }
                differing.truncate(6);
            }
            let file_digests: std::collections::BTreeMap<&String, String> = tree.iter().map(|(p, b)| (p, digest(&String::from_utf8_lossy(b)))).collect();
            log.emit(json!({"ev": "tree", "monitor": "C13", "threads": threads, "rep": rep, "digest": d, "files": tree.len(), "file_digests": file_digests,
                "same_as_first_in_process": same_as_first, "differing": differing, "errors": errors.iter().take(5).collect::<Vec<_>>(),
                "n_errors": errors.len()}));
        }
    }
    // over what an earlier, partial run left behind: every shared file holds the stand-alone text of one of its types
    // (a filtered test run, or one process per test with the last writer winning). The tree is that of a clean run.
    let groups = super::merge::shared_files(reg);
    for (round, threads) in [1usize, 1, 4].into_iter().enumerate() {
        clear_dir(&root);
        verif::reset_registry();
        std::env::remove_var("TS_RS_EXPORT_DIR");
        let mut seeded_files = 0u64;
        let mut order: Vec<usize> = (0..reg.len()).collect();
        rng.shuffle(&mut order);
        if round == 0 {
            // the leftover of each shared file is the text of the type this very run writes into it first: a dry run of the
            // same order (sorted, one thread - as a test runner would go) tells which one that is
            order.sort_by_key(|&i| reg[i].id.clone());
            WRITES.lock().unwrap().clear();
            verif::set_probe(Some(record_write));
            for &i in &order {
                let _ = guarded(reg[i].export_all);
            }
            verif::set_probe(None);
            let writes: Vec<(std::path::PathBuf, String)> = std::mem::take(&mut *WRITES.lock().unwrap());
            clear_dir(&root);
            verif::reset_registry();
            let mut first_writer: std::collections::BTreeMap<std::path::PathBuf, (String, usize)> = Default::default();
            for (p, ty) in &writes {
                let e = first_writer.entry(p.clone()).or_insert((ty.clone(), 0));
                e.1 += 1;
            }
            for (path, (ty, n)) in &first_writer {
                if *n < 2 {
                    continue;
                }
                let Some(e) = reg.iter().find(|e| guarded(e.ident).ok().as_deref() == Some(ty.as_str())
                    && guarded(e.output_path).ok().flatten().map_or(false, |p| path.ends_with(p.file_name().unwrap_or_default()))) else { continue };
                let Ok(Ok(text)) = guarded(e.export_to_string) else { continue };
                if path.parent().map_or(false, |p| std::fs::create_dir_all(p).is_ok()) && std::fs::write(path, text.as_bytes()).is_ok() {
                    seeded_files += 1;
                }
            }
        } else {
            for (_file, group) in &groups {
                let i = group[rng.below(group.len())];
                let (Ok(Ok(text)), Some(path)) = (guarded(reg[i].export_to_string), guarded(reg[i].output_path).ok().flatten()) else { continue };
                let Some(rel) = super::fsutil::norm_rel("bindings", &path.to_string_lossy()) else { continue };
                let target = root.join(rel);
                if target.parent().map_or(false, |p| std::fs::create_dir_all(p).is_ok()) && std::fs::write(&target, text.as_bytes()).is_ok() {
                    seeded_files += 1;
                }
            }
        }
        let chunks: Vec<Vec<usize>> = (0..threads).map(|t| order.iter().copied().skip(t).step_by(threads).collect()).collect();
        let barrier = Arc::new(Barrier::new(threads));
        let errors: Vec<String> = std::thread::scope(|s| {
            let hs: Vec<_> = chunks
                .iter()
                .map(|chunk| {
                    let b = barrier.clone();
                    s.spawn(move || {
                        b.wait();
                        let mut errs = vec![];
                        for &i in chunk {
                            match guarded(reg[i].export_all) {
                                Ok(Ok(())) => {}
                                other => errs.push(format!("{}: {other:?}", reg[i].id)),
                            }
                        }
                        errs
                    })
                })
                .collect();
            hs.into_iter().flat_map(|h| h.join().unwrap_or_default()).collect()
        });
        let tree = files_only(&snapshot(&root));
        let file_digests: std::collections::BTreeMap<&String, String> = tree.iter().map(|(p, b)| (p, digest(&String::from_utf8_lossy(b)))).collect();
        let mut differing = vec![];
        if let Some((_, t0)) = &first {
            for (p, b) in &tree {
                if t0.get(p) != Some(b) {
                    differing.push(json!({"path": p, "now": String::from_utf8_lossy(b), "first": t0.get(p).map(|x| String::from_utf8_lossy(x).to_string())}));
                }
            }
            differing.truncate(6);
        }
        log.emit(json!({"ev": "tree", "monitor": "C13", "threads": threads, "rep": format!("over-leftovers-{round}"), "files": tree.len(),
            "digest": digest(&tree_json(&tree).to_string()), "file_digests": file_digests, "same_as_first_in_process": differing.is_empty(),
            "differing": differing, "leftover_files_seeded": seeded_files,
            "errors": errors.iter().take(5).collect::<Vec<_>>(), "n_errors": errors.len()}));
    }
    // mixed entry points: a fixed subset is exported alone (`export()`), another fixed subset with its dependencies
    // (`export_all()`); the operations run in seeded shuffled orders on 1, 4 and 16 threads. The resulting tree is a
    // function of the two subsets only.
    let mut pick = Rng::new(args.seed ^ 0x5EED);
    for round in 0..4 {
    let alone: Vec<usize> = (0..reg.len()).filter(|_| pick.chance(1, 6)).collect();
    let with_deps: Vec<usize> = (0..reg.len()).filter(|_| pick.chance(1, 5)).collect();
    let mut ops: Vec<(usize, bool)> = alone.iter().map(|&i| (i, false)).chain(with_deps.iter().map(|&i| (i, true))).collect();
    for threads in [1usize, 4, 16] {
        for rep in 0..2 {
            clear_dir(&root);
            verif::reset_registry();
            if rep == 1 {
                std::env::set_var("TS_RS_EXPORT_DIR", root.join("bindings"));
            } else {
                std::env::remove_var("TS_RS_EXPORT_DIR");
            }
            rng.shuffle(&mut ops);
            let chunks: Vec<Vec<(usize, bool)>> = (0..threads).map(|t| ops.iter().copied().skip(t).step_by(threads).collect()).collect();
            let barrier = Arc::new(Barrier::new(threads));
            let errors: Vec<String> = std::thread::scope(|s| {
                let hs: Vec<_> = chunks
                    .iter()
                    .map(|chunk| {
                        let b = barrier.clone();
                        s.spawn(move || {
                            b.wait();
                            let mut errs = vec![];
                            for &(i, all) in chunk {
                                match guarded(if all { reg[i].export_all } else { reg[i].export }) {
                                    Ok(Ok(())) => {}
                                    other => errs.push(format!("{}: {other:?}", reg[i].id)),
                                }
                            }
                            errs
                        })
                    })
                    .collect();
                hs.into_iter().flat_map(|h| h.join().unwrap_or_default()).collect()
            });
            let tree = files_only(&snapshot(&root));
            let file_digests: std::collections::BTreeMap<&String, String> = tree.iter().map(|(p, b)| (p, digest(&String::from_utf8_lossy(b)))).collect();
            log.emit(json!({"ev": "tree", "monitor": "C13", "phase": format!("mixed{round}"), "threads": threads, "rep": rep, "files": tree.len(),
                "digest": digest(&tree_json(&tree).to_string()), "file_digests": file_digests, "same_as_first_in_process": true, "differing": [],
                "alone": alone.len(), "with_dependencies": with_deps.len(),
                "errors": errors.iter().take(5).collect::<Vec<_>>(), "n_errors": errors.len()}));
        }
    }
    }
    std::env::remove_var("TS_RS_EXPORT_DIR");
    if let Some((d, tree)) = first {
        let shared: usize = tree.values().filter(|b| String::from_utf8_lossy(b).matches("export type ").count() > 1).count();
        let multi_import: usize = tree.values().filter(|b| String::from_utf8_lossy(b).matches("import type ").count() >= 3).count();
        log.emit(json!({"ev": "tree-summary", "digest": d, "files": tree.len(), "files_with_several_types": shared,
            "files_with_3plus_import_lines": multi_import, "tree": tree_json(&tree)}));
    }
    clear_dir(&root);
    std::env::set_current_dir("/").ok();
    let _ = std::fs::remove_dir_all(args.scratch.join("c13"));
}
