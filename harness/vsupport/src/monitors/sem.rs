//! Value-level monitors: C01 (serialized values inhabit the type) and C02 (inhabitants deserialize).

use serde_json::{json, Map, Value};
use tsmodel::{Ty, Verdict};

use super::{build_env, fail_json, parse_decl_text, parse_ty};
use crate::{guarded, Args, Log, TypeEntry};

const SAMPLE_DEPTH: u32 = 5;

pub struct Views {
    pub views: Vec<(&'static str, Ty)>,
    pub problems: Vec<(String, String)>,
    pub texts: Value,
}

/// The three presentations of a type that must all accept its values: `name()` resolved through
/// the declarations, `inline()` and the body of `decl_concrete()`.
pub fn views(e: &TypeEntry) -> Views {
    let mut views = vec![];
    let mut problems = vec![];
    let name = guarded(e.name);
    let inline = guarded(e.inline);
    let dc = guarded(e.decl_concrete);
    match parse_ty(&name) {
        Ok(t) => views.push(("name", t)),
        Err((k, d)) => problems.push((format!("{k}|name"), d)),
    }
    match parse_ty(&inline) {
        Ok(t) => views.push(("inline", t)),
        Err((k, d)) => problems.push((format!("{k}|inline"), d)),
    }
    match parse_decl_text(&dc) {
        Ok(d) => {
            if d.params.is_empty() {
                views.push(("decl_concrete", d.body))
            } else {
                problems.push(("decl_concrete-has-parameters".into(), format!("{dc:?}")))
            }
        }
        Err((k, d)) => problems.push((format!("{k}|decl_concrete"), d)),
    }
    Views {
        views,
        problems,
        texts: json!({"name": name.ok(), "inline": inline.ok(), "decl_concrete": dc.ok()}),
    }
}

pub fn c01(_args: &Args, reg: &[TypeEntry], log: &mut Log) {
    for e in reg {
        let Some(s) = &e.serde else { continue };
        log.start(&e.id, &e.rust);
        let info = build_env(e);
        let v = views(e);
        let mut problems: Vec<(String, String)> = info.problems.clone();
        problems.extend(v.problems.iter().cloned());
        let samples = guarded(|| (s.samples)(SAMPLE_DEPTH)).unwrap_or_else(|p| {
            problems.push(("panic|samples".into(), p));
            vec![]
        });
        let mut fails = vec![];
        let mut inconclusive = vec![];
        let mut checked = 0usize;
        let mut rejected = 0usize;
        let mut nontrivial = 0usize;
        let mut first_ok: Option<Value> = None;
        for sv in &samples {
            let val = match sv {
                Ok(v) => v,
                Err(_) => {
                    rejected += 1;
                    continue;
                }
            };
            if val.is_object() || val.is_array() {
                nontrivial += 1;
            }
            for (label, ty) in &v.views {
                checked += 1;
                match info.env.member(val, ty) {
                    Verdict::Ok => {
                        if first_ok.is_none() {
                            first_ok = Some(val.clone());
                        }
                    }
                    Verdict::Fail(f) => {
                        if fails.len() < 6 {
                            fails.push(fail_json(label, val, &f));
                        }
                    }
                    Verdict::Inconclusive(r) => {
                        if inconclusive.len() < 3 {
                            inconclusive.push(json!({"against": label, "reason": r}));
                        }
                    }
                }
            }
        }
        log.emit(json!({
            "ev": "type", "monitor": "C01", "id": e.id, "rust": e.rust,
            "ts": v.texts, "decls": info.decl_texts,
            "samples": samples.len(), "serde_rejected": rejected, "checked": checked, "nontrivial": nontrivial,
            "fails": fails, "problems": problems, "inconclusive": inconclusive, "example": first_ok,
        }));
    }
}

// ------------------------------------------------------------------------------------------

/// JSON text with object keys in reverse order (serde_json's own printer sorts them).
pub fn to_text_reversed(v: &Value) -> String {
    match v {
        Value::Array(a) => format!("[{}]", a.iter().map(to_text_reversed).collect::<Vec<_>>().join(",")),
        Value::Object(m) => format!(
            "{{{}}}",
            m.iter()
                .rev()
                .map(|(k, v)| format!("{}:{}", Value::String(k.clone()), to_text_reversed(v)))
                .collect::<Vec<_>>()
                .join(",")
        ),
        other => other.to_string(),
    }
}

/// Single-step structural mutants of a JSON value.
pub fn mutants(v: &Value, out: &mut Vec<Value>, limit: usize) {
    fn go(root: &Value, cur: &Value, path: &mut Vec<PathSeg>, out: &mut Vec<Value>, limit: usize) {
        if out.len() >= limit {
            return;
        }
        match cur {
            Value::Object(m) => {
                for k in m.keys() {
                    // drop a key
                    let mut m2 = m.clone();
                    m2.remove(k);
                    out.push(replace(root, path, Value::Object(m2)));
                }
                for (k, child) in m {
                    path.push(PathSeg::Key(k.clone()));
                    go(root, child, path, out, limit);
                    path.pop();
                }
            }
            Value::Array(a) => {
                if !a.is_empty() {
                    let mut a2 = a.clone();
                    a2.pop();
                    out.push(replace(root, path, Value::Array(a2)));
                    let mut a3 = a.clone();
                    a3.push(a[a.len() - 1].clone());
                    out.push(replace(root, path, Value::Array(a3)));
                }
                for (i, child) in a.iter().enumerate().take(3) {
                    path.push(PathSeg::Idx(i));
                    go(root, child, path, out, limit);
                    path.pop();
                }
            }
            Value::Null => {}
            _ => {
                // value -> null
                out.push(replace(root, path, Value::Null));
            }
        }
        if !cur.is_null() && (cur.is_object() || cur.is_array()) && !path.is_empty() {
            out.push(replace(root, path, Value::Null));
        }
    }
    let mut path = vec![];
    go(v, v, &mut path, out, limit);
}

pub enum PathSeg {
    Key(String),
    Idx(usize),
}

fn replace(root: &Value, path: &[PathSeg], new: Value) -> Value {
    if path.is_empty() {
        return new;
    }
    let mut r = root.clone();
    {
        let mut cur = &mut r;
        for seg in path {
            cur = match seg {
                PathSeg::Key(k) => cur.get_mut(k).unwrap(),
                PathSeg::Idx(i) => cur.get_mut(*i).unwrap(),
            };
        }
        *cur = new;
    }
    r
}

/// Floats with an integral value are written as integers (what `JSON.stringify` does), so that a value that
/// moves into an integer position stays representable.
pub fn integral_floats_to_ints(v: &mut Value) {
    match v {
        Value::Number(n) => {
            if n.is_f64() {
                let f = n.as_f64().unwrap();
                if f.fract() == 0.0 && f.abs() < 1e15 {
                    *v = Value::from(f as i64);
                }
            }
        }
        Value::Array(a) => a.iter_mut().for_each(integral_floats_to_ints),
        Value::Object(m) => m.values_mut().for_each(integral_floats_to_ints),
        _ => {}
    }
}

pub fn c02(args: &Args, reg: &[TypeEntry], log: &mut Log) {
    let cap = if args.thorough() { 400 } else { 150 };
    crate::samples::SAFE_LEAVES.store(true, std::sync::atomic::Ordering::Relaxed);
    for e in reg {
        let Some(s) = &e.serde else { continue };
        let Some(roundtrip) = s.roundtrip else { continue };
        log.start(&e.id, &e.rust);
        let info = build_env(e);
        let v = views(e);
        let mut problems: Vec<(String, String)> = info.problems.clone();
        problems.extend(v.problems.iter().cloned());
        let Some((_, name_ty)) = v.views.iter().find(|(l, _)| *l == "name") else {
            log.emit(json!({"ev": "type", "monitor": "C02", "id": e.id, "rust": e.rust, "problems": problems,
                "excluded": "no-name-view", "witnesses": 0, "checked": 0, "fails": [], "inconclusive": []}));
            continue;
        };
        // domain: serde round-trips its own output on every sample
        let samples: Vec<Value> = guarded(|| (s.samples)(SAMPLE_DEPTH))
            .unwrap_or_default()
            .into_iter()
            .filter_map(|r| r.ok())
            .map(|mut v| {
                integral_floats_to_ints(&mut v);
                v
            })
            .collect();
        let mut excluded: Option<String> = None;
        for sv in &samples {
            match guarded(|| roundtrip(&sv.to_string())) {
                Ok(Ok(back)) => {
                    if &back != sv && excluded.is_none() {
                        // lossy round trip (e.g. skipped fields reset) is fine; only note it
                    }
                }
                Ok(Err(err)) => {
                    excluded = Some(format!("serde does not round-trip its own output: {sv} -> {err}"));
                    break;
                }
                Err(p) => {
                    excluded = Some(format!("deserialize panicked: {p}"));
                    break;
                }
            }
        }
        if let Some(why) = excluded {
            log.emit(json!({"ev": "type", "monitor": "C02", "id": e.id, "rust": e.rust, "problems": problems,
                "excluded": why, "witnesses": 0, "checked": 0, "fails": [], "inconclusive": []}));
            continue;
        }

        let mut inconclusive = vec![];
        let mut candidates: Vec<(String, Value)> = vec![];
        match info.env.witnesses(name_ty, 3, cap) {
            Ok(ws) => candidates.extend(ws.into_iter().map(|w| ("witness".to_string(), w))),
            Err(r) => inconclusive.push(json!({"stage": "witnesses", "reason": r})),
        }
        let n_witness = candidates.len();
        let mut muts = vec![];
        for sv in samples.iter().take(8) {
            mutants(sv, &mut muts, 40 * 8);
        }
        let mut n_mut = 0;
        for m in muts {
            if candidates.len() >= cap * 2 {
                break;
            }
            if candidates.iter().any(|(_, c)| c == &m) {
                continue;
            }
            if info.env.member(&m, name_ty) == Verdict::Ok {
                n_mut += 1;
                candidates.push(("mutant".into(), m));
            }
        }
        let mut fails = vec![];
        let mut checked = 0;
        let mut example = None;
        for (kind, w) in &candidates {
            for (order, text) in [("sorted", w.to_string()), ("reversed", to_text_reversed(w))] {
                if order == "reversed" && !(w.is_object()) {
                    continue;
                }
                checked += 1;
                match guarded(|| roundtrip(&text)) {
                    Ok(Ok(back)) => match info.env.member(&back, name_ty) {
                        Verdict::Ok => {
                            if example.is_none() && w.is_object() {
                                example = Some(w.clone());
                            }
                        }
                        Verdict::Fail(f) => {
                            if fails.len() < 6 {
                                fails.push(json!({"kind": kind, "stage": "reserialize", "witness": w, "text": text,
                                    "reserialized": back, "path": f.path, "reason": f.reason, "in_decl": f.in_decl, "also": f.also}));
                            }
                        }
                        Verdict::Inconclusive(r) => inconclusive.push(json!({"stage": "reserialize", "reason": r})),
                    },
                    Ok(Err(err)) => {
                        if fails.len() < 6 {
                            fails.push(json!({"kind": kind, "stage": "deserialize", "witness": w, "text": text, "reason": err, "path": []}));
                        }
                    }
                    Err(p) => {
                        if fails.len() < 6 {
                            fails.push(json!({"kind": kind, "stage": "deserialize-panic", "witness": w, "text": text, "reason": p, "path": []}));
                        }
                    }
                }
            }
        }
        inconclusive.truncate(3);
        log.emit(json!({
            "ev": "type", "monitor": "C02", "id": e.id, "rust": e.rust, "ts": v.texts, "decls": info.decl_texts,
            "witnesses": n_witness, "mutants": n_mut, "checked": checked, "fails": fails,
            "problems": problems, "inconclusive": inconclusive, "example": example,
        }));
    }
}

#[allow(unused)]
fn _unused(_: Map<String, Value>) {}
