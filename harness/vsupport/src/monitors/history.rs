//! C06 (export result depends only on what was exported) and C17 (failures are errors and do not
//! poison later exports): histories of real export calls against a scratch directory, one registry
//! lifetime per history (reset hook), oracles over directory snapshots.

use std::{
    collections::{BTreeMap, BTreeSet, HashMap},
    path::{Path, PathBuf},
};

use serde_json::{json, Value};
use ts_rs::verif;

use super::fsutil::{clear_dir, declared_names, files_only, norm_rel, run_op, snapshot, tree_json, Op, OpKind, Outcome, Tree};
use crate::{guarded, rng::Rng, Args, Log, TypeEntry};

pub const UNIVERSE: &[&str] = &["UA", "UB", "UC", "UD", "UE", "UF", "UG", "UGx", "UG2", "UH", "UI", "UMSame", "UNSame", "UJ", "UK"];

#[derive(Clone, Debug)]
pub struct Config {
    pub name: &'static str,
    /// value of TS_RS_EXPORT_DIR (None = unset); `{R}` is replaced by the sandbox root
    pub env: Option<&'static str>,
    /// directory (relative to the sandbox root) that the configuration denotes
    pub dname: &'static str,
    /// how explicit directories are spelled in this configuration (relative to the sandbox root): `dname`, except where the
    /// way there leads through a symbolic link
    pub spell: &'static str,
}

pub const CONFIGS: &[Config] = &[
    Config { name: "unset", env: None, dname: "bindings", spell: "bindings" },
    Config { name: "relative", env: Some("out"), dname: "out", spell: "out" },
    Config { name: "absolute", env: Some("{R}/out"), dname: "out", spell: "out" },
    Config { name: "dot-prefix", env: Some("./out"), dname: "out", spell: "out" },
    Config { name: "trailing-slash", env: Some("out/"), dname: "out", spell: "out" },
    Config { name: "dotdot", env: Some("sub/../out"), dname: "out", spell: "out" },
    // `lnk` is a symbolic link to the directory `real` (made by `set_env`); every spelling of the history goes through it
    Config { name: "through-symlink", env: Some("lnk/out"), dname: "real/out", spell: "lnk/out" },
];

pub fn spellings(dname: &str, root: &Path) -> Vec<(String, &'static str)> {
    vec![
        (dname.to_string(), "plain"),
        (format!("./{dname}"), "dot-prefix"),
        (format!("{}/{dname}", root.to_string_lossy()), "absolute"),
        (format!("{dname}/"), "trailing-slash"),
        (format!("x/../{dname}"), "dotdot"),
        (format!("./{dname}/."), "dot-suffix"),
    ]
}

pub struct World<'a> {
    pub reg: &'a [TypeEntry],
    pub root: PathBuf,
    pub uni: Vec<usize>,
    /// ident -> registry index
    /// (relative output path, ident) -> registry index (two types may share an ident, not a path and an ident)
    pub by_ident: HashMap<(String, String), usize>,
    /// registry index -> closure as (relative output path, ident)
    pub closure: HashMap<usize, BTreeSet<(String, String)>>,
}

impl<'a> World<'a> {
    pub fn new(reg: &'a [TypeEntry], root: PathBuf) -> Self {
        std::fs::create_dir_all(&root).unwrap();
        std::env::set_current_dir(&root).unwrap();
        let uni: Vec<usize> = UNIVERSE
            .iter()
            .map(|id| reg.iter().position(|e| e.id == *id).expect("universe type"))
            .collect();
        let mut by_ident = HashMap::new();
        let mut closure = HashMap::new();
        for &i in &uni {
            by_ident.insert(((reg[i].output_path)().map(|p| p.to_string_lossy().to_string()).unwrap_or_default(), (reg[i].ident)()), i);
            let set: BTreeSet<(String, String)> = (reg[i].collect)()
                .into_iter()
                .map(|d| (d.output_path.to_string_lossy().to_string(), d.ident))
                .collect();
            closure.insert(i, set);
        }
        World { reg, root, uni, by_ident, closure }
    }

    pub fn set_env(&self, cfg: &Config) {
        if cfg.name == "through-symlink" {
            let _ = std::fs::create_dir_all(self.root.join("real"));
            #[cfg(unix)]
            let _ = std::os::unix::fs::symlink(self.root.join("real"), self.root.join("lnk"));
        }
        match cfg.env {
            None => std::env::remove_var("TS_RS_EXPORT_DIR"),
            Some(v) => std::env::set_var("TS_RS_EXPORT_DIR", v.replace("{R}", &self.root.to_string_lossy())),
        }
    }

    pub fn decls_of(&self, op: &Op) -> BTreeSet<(String, String)> {
        match op.kind {
            OpKind::Export => {
                let e = &self.reg[op.ty];
                let mut s = BTreeSet::new();
                if let Some(p) = (e.output_path)() {
                    s.insert((p.to_string_lossy().to_string(), (e.ident)()));
                }
                s
            }
            _ => self.closure.get(&op.ty).cloned().unwrap_or_default(),
        }
    }

    pub fn fresh(&self) {
        clear_dir(&self.root);
        verif::reset_registry();
    }

    /// The tree (relative to the sandbox root) that exporting exactly `decls` must produce: fresh registry,
    /// absolute directory, single-type exports in sorted order.
    pub fn canonical(&self, dname: &str, decls: &BTreeSet<(String, String)>, cache: &mut HashMap<String, Tree>) -> Tree {
        let key = format!("{dname}|{decls:?}");
        if let Some(t) = cache.get(&key) {
            return t.clone();
        }
        self.fresh();
        std::env::set_var("TS_RS_EXPORT_DIR", self.root.join(dname));
        for (path, ident) in decls {
            let i = self.by_ident[&(path.clone(), ident.clone())];
            let _ = guarded(|| (self.reg[i].export)());
        }
        let t = files_only(&snapshot(&self.root));
        cache.insert(key, t.clone());
        t
    }
}

fn stale_state(w: &World, dname: &str) -> Tree {
    // garbage at every path the universe can write, plus unrelated files
    for &i in &w.uni {
        if let Some(p) = (w.reg[i].output_path)() {
            if let Some(rel) = norm_rel(dname, &p.to_string_lossy()) {
                let full = w.root.join(&rel);
                std::fs::create_dir_all(full.parent().unwrap()).unwrap();
                std::fs::write(&full, format!("STALE-GARBAGE {rel}\n\nexport type Stale = never; /* lots of stale bytes {} */\n", "x".repeat(3000))).unwrap();
            }
        }
    }
    let d = w.root.join(dname);
    std::fs::create_dir_all(d.join("shared")).unwrap();
    std::fs::write(d.join("unrelated.txt"), b"keep me\n").unwrap();
    std::fs::write(d.join("shared/other.ts"), b"// hand written neighbour\nexport type Other = 1;\n").unwrap();
    snapshot(&w.root)
}

fn previous_run_state(w: &World, dname: &str) -> Tree {
    std::env::set_var("TS_RS_EXPORT_DIR", w.root.join(dname));
    for &i in &w.uni {
        let _ = guarded(|| (w.reg[i].export_all)());
    }
    verif::reset_registry();
    let d = w.root.join(dname);
    std::fs::write(d.join("unrelated.txt"), b"keep me\n").unwrap();
    snapshot(&w.root)
}

/// What is left of an earlier run that exported only some of the types: every file holds the stand-alone export of
/// one of its types (fresh registry for every type, so a shared file is overwritten, not merged).
fn partial_run_state(w: &World, dname: &str, rng: &mut Rng) -> Tree {
    std::env::set_var("TS_RS_EXPORT_DIR", w.root.join(dname));
    let mut order = w.uni.clone();
    rng.shuffle(&mut order);
    for &i in &order {
        if rng.chance(2, 3) {
            verif::reset_registry();
            let _ = guarded(|| (w.reg[i].export)());
        }
    }
    verif::reset_registry();
    snapshot(&w.root)
}

fn random_op(w: &World, rng: &mut Rng, dname: &str) -> (Op, &'static str) {
    let ty = w.uni[rng.below(w.uni.len())];
    match rng.below(3) {
        0 => (Op { ty, kind: OpKind::Export }, "export"),
        1 => (Op { ty, kind: OpKind::ExportAll }, "export_all"),
        _ => {
            let sp = spellings(dname, &w.root);
            let (s, label) = &sp[rng.below(sp.len())];
            (Op { ty, kind: OpKind::ExportAllTo(s.clone()) }, label)
        }
    }
}

fn present_decls(tree: &Tree, dname: &str, decls: &BTreeSet<(String, String)>) -> Vec<String> {
    // which of `decls` are missing from their file
    let mut missing = vec![];
    let mut cache: HashMap<String, Result<Vec<String>, String>> = HashMap::new();
    for (path, ident) in decls {
        let Some(rel) = norm_rel(dname, path) else { continue };
        let names = cache
            .entry(rel.clone())
            .or_insert_with(|| tree.get(&rel).ok_or_else(|| "no such file".to_string()).and_then(|b| declared_names(b)));
        match names {
            Ok(n) if n.contains(ident) => {}
            _ => missing.push(format!("{ident}@{rel}")),
        }
    }
    missing
}

pub fn c06(args: &Args, reg: &[TypeEntry], log: &mut Log) {
    let shard = args.num("shard", 0);
    let shards = args.num("shards", 1).max(1);
    let w = World::new(reg, args.scratch.join(format!("c06-{shard}/deep/cwd")));
    let mut rng = Rng::new(args.seed.wrapping_mul(1_000_003).wrapping_add(shard));
    let mut cache = HashMap::new();
    let n_random = if args.thorough() { 1_200_000 } else { 60_000 } / shards;
    let mut histories = 0u64;
    let mut steps = 0u64;
    let mut fails = 0u64;
    let mut distinct: BTreeSet<String> = BTreeSet::new();
    let mut sample: Option<Value> = None;

    // exhaustive part: all ordered pairs of (type, entry point) for one configuration chosen by the shard
    let mut plans: Vec<(usize, usize, Vec<(Op, &'static str)>)> = vec![];
    {
        let cfg_i = (shard as usize + args.seed as usize) % CONFIGS.len();
        let dname = CONFIGS[cfg_i].spell;
        let mut ops: Vec<(Op, &'static str)> = vec![];
        for &ty in &w.uni {
            ops.push((Op { ty, kind: OpKind::Export }, "export"));
            ops.push((Op { ty, kind: OpKind::ExportAll }, "export_all"));
            let sp = spellings(dname, &w.root);
            let (s, l) = &sp[(ty + shard as usize) % sp.len()];
            ops.push((Op { ty, kind: OpKind::ExportAllTo(s.clone()) }, l));
        }
        let mut k = 0u64;
        for a in &ops {
            for b in &ops {
                k += 1;
                if k % shards == shard {
                    plans.push((cfg_i, (k % 3) as usize, vec![a.clone(), b.clone()]));
                }
            }
        }
    }
    for _ in 0..n_random {
        let cfg_i = rng.below(CONFIGS.len());
        let len = 1 + rng.below(if args.thorough() { 5 } else { 4 });
        let ops = (0..len).map(|_| random_op(&w, &mut rng, CONFIGS[cfg_i].spell)).collect();
        plans.push((cfg_i, rng.below(4), ops));
    }

    for (cfg_i, init, ops) in plans {
        let cfg = &CONFIGS[cfg_i];
        // now and then the whole output tree is removed in the middle of the history (a cleaned bindings directory): what counts
        // is what is exported after that
        let clean_at: Option<usize> = if init == 0 && ops.len() >= 2 && rng.chance(1, 5) { Some(1 + rng.below(ops.len() - 1)) } else { None };
        let mut want: BTreeSet<(String, String)> = BTreeSet::new();
        for (op, _) in &ops[clean_at.unwrap_or(0)..] {
            want.extend(w.decls_of(op));
        }
        let canon = w.canonical(cfg.dname, &want, &mut cache);
        w.fresh();
        let init_name = ["empty", "stale", "previous-run", "partial-previous-run"][init];
        let initial = match init {
            0 => Tree::new(),
            1 => stale_state(&w, cfg.dname),
            2 => previous_run_state(&w, cfg.dname),
            _ => partial_run_state(&w, cfg.dname, &mut rng),
        };
        w.set_env(cfg);
        histories += 1;
        let mut so_far: BTreeSet<(String, String)> = BTreeSet::new();
        let mut problem: Option<(String, String)> = None;
        let mut trace = vec![];
        for (k, (op, _)) in ops.iter().enumerate() {
            if clean_at == Some(k) {
                clear_dir(&w.root);
                w.set_env(cfg);
                so_far.clear();
                trace.push(json!({"op": "remove the output tree"}));
            }
            let r = run_op(reg, op);
            steps += 1;
            trace.push(json!({"op": op.describe(reg), "result": r.json()}));
            if !r.is_ok() && problem.is_none() {
                problem = Some(("step-failed".into(), format!("step {k} {} -> {:?}", op.describe(reg), r)));
            }
            so_far.extend(w.decls_of(op));
            let now = snapshot(&w.root);
            let missing = present_decls(&now, cfg.dname, &so_far);
            if !missing.is_empty() && problem.is_none() {
                problem = Some(("lost-declaration".into(), format!("after step {k} ({}) missing: {}", op.describe(reg), missing.join(", "))));
            }
        }
        let fin = files_only(&snapshot(&w.root));
        let initial = files_only(&initial);
        if problem.is_none() {
            for (p, bytes) in &canon {
                match fin.get(p) {
                    Some(b) if b == bytes => {}
                    Some(_) => {
                        problem = Some(("file-differs-from-canonical".into(), format!("{p} differs from the canonical export of the same set")));
                        break;
                    }
                    None => {
                        problem = Some(("file-missing".into(), format!("{p} is missing")));
                        break;
                    }
                }
            }
        }
        if problem.is_none() {
            for (p, bytes) in &fin {
                if canon.contains_key(p) {
                    if String::from_utf8_lossy(bytes).contains("STALE-GARBAGE") {
                        problem = Some(("stale-bytes".into(), format!("{p} still contains stale bytes")));
                    }
                    continue;
                }
                match initial.get(p) {
                    Some(b) if b == bytes => {}
                    Some(_) => problem = Some(("unrelated-file-modified".into(), p.clone())),
                    None => problem = Some(("unexpected-file".into(), p.clone())),
                }
            }
            for p in initial.keys() {
                if !fin.contains_key(p) && !p.ends_with('/') {
                    problem = Some(("unrelated-file-removed".into(), p.clone()));
                }
            }
        }
        let shape: Vec<&str> = ops.iter().map(|(_, l)| *l).collect();
        let same_file = {
            let mut files: Vec<String> = vec![];
            let mut shared = false;
            for (op, _) in &ops {
                if let Some(p) = (reg[op.ty].output_path)() {
                    let p = p.to_string_lossy().to_string();
                    if files.contains(&p) {
                        shared = true;
                    }
                    files.push(p);
                }
            }
            shared
        };
        distinct.insert(format!("{}|{}|{}|{}{}", cfg.name, init_name, shape.join(">"), same_file, if clean_at.is_some() { "|cleaned" } else { "" }));
        if sample.is_none() && ops.len() >= 3 {
            sample = Some(json!({"config": cfg.name, "initial": init_name, "history": trace.clone(),
                "final_files": fin.keys().cloned().collect::<Vec<_>>()}));
        }
        if let Some((kind, what)) = problem {
            fails += 1;
            if fails <= 60 {
                log.emit(json!({"ev": "fail", "monitor": "C06", "kind": kind, "what": what, "config": cfg.name, "env": cfg.env,
                    "initial": init_name, "shape": shape, "same_file_twice": same_file, "history": trace,
                    "final": tree_json(&fin), "canonical": tree_json(&canon)}));
            } else {
                log.emit(json!({"ev": "fail", "monitor": "C06", "kind": kind, "what": what, "config": cfg.name,
                    "initial": init_name, "shape": shape, "same_file_twice": same_file}));
            }
        }
    }
    log.emit(json!({"ev": "summary", "monitor": "C06", "histories": histories, "steps": steps, "fails": fails,
        "distinct": distinct.len(), "distinct_keys": distinct.iter().take(4000).collect::<Vec<_>>(),
        "canonical_sets": cache.len(), "sample": sample}));
    clear_dir(&w.root);
    std::env::set_current_dir("/").ok();
    let _ = std::fs::remove_dir_all(args.scratch.join(format!("c06-{shard}")));
}

// ------------------------------------------------------------------------------------------
// C17

#[derive(Clone, Copy, Debug, PartialEq, Eq)]
enum Obstacle {
    TargetIsDir,
    ParentIsFile,
    DepTargetIsDir,
    AboveRoot,
    NotExportable,
    /// the target was written earlier in this history (by another type of the same file) and is now a directory
    ExistingTargetIsDir,
    /// the target was written earlier in this history by another type of the same file, and something else has emptied it
    /// since (another process rewriting the same bindings): the call may succeed by starting the file again or return an
    /// error - it must not panic, and must not leave the registry poisoned
    ExistingTargetEmptied,
}

const OBSTACLES: &[Obstacle] = &[
    Obstacle::TargetIsDir,
    Obstacle::ParentIsFile,
    Obstacle::DepTargetIsDir,
    Obstacle::AboveRoot,
    Obstacle::NotExportable,
    Obstacle::ExistingTargetIsDir,
    Obstacle::ExistingTargetIsDir,
    Obstacle::ExistingTargetEmptied,
    Obstacle::ExistingTargetEmptied,
];

enum Cleanup {
    RemoveDir(PathBuf),
    RemoveFile(PathBuf),
    Restore(PathBuf, Vec<u8>),
}

fn run_plain(w: &World, reg: &[TypeEntry], cfg: &Config, ops: &[Op]) -> Tree {
    w.fresh();
    w.set_env(cfg);
    for op in ops {
        let _ = run_op(reg, op);
    }
    snapshot(&w.root)
}

pub fn c17(args: &Args, reg: &[TypeEntry], log: &mut Log) {
    let shard = args.num("shard", 0);
    let shards = args.num("shards", 1).max(1);
    let w = World::new(reg, args.scratch.join(format!("c17-{shard}/deep/cwd")));
    let mut rng = Rng::new(args.seed.wrapping_mul(999_983).wrapping_add(shard));
    let prims: Vec<usize> = reg.iter().enumerate().filter(|(_, e)| e.id.starts_with("prim:")).map(|(i, _)| i).collect();
    let n = if args.thorough() { 600_000 } else { 40_000 } / shards;
    let mut histories = 0u64;
    let mut injected: BTreeMap<String, u64> = BTreeMap::new();
    let mut skipped = 0u64;
    let mut fails = 0u64;
    let mut distinct: BTreeSet<String> = BTreeSet::new();
    let mut sample: Option<Value> = None;
    let mut plain_cache: HashMap<String, Tree> = HashMap::new();

    for it in 0..n {
        // absolute/relative configurations alternate; the default relative directory is C06's subject
        let cfg = &CONFIGS[1 + rng.below(CONFIGS.len() - 1)];
        let len = 1 + rng.below(if args.thorough() { 4 } else { 3 });
        let ops: Vec<Op> = (0..len).map(|_| random_op(&w, &mut rng, cfg.spell).0).collect();
        let k = rng.below(len);
        let obstacle = OBSTACLES[(it as usize + rng.below(OBSTACLES.len())) % OBSTACLES.len()];
        // fault-free reference for the same history
        let key = format!("{}|{ops:?}", cfg.name);
        let reference = match plain_cache.get(&key) {
            Some(t) => t.clone(),
            None => {
                let t = run_plain(&w, reg, cfg, &ops);
                if plain_cache.len() < 20_000 {
                    plain_cache.insert(key, t.clone());
                }
                t
            }
        };
        w.fresh();
        w.set_env(cfg);
        let mut trace = vec![];
        let mut problem: Option<(String, String)> = None;
        let mut did_inject = false;
        for (i, op) in ops.iter().enumerate() {
            if i != k {
                let r = run_op(reg, op);
                trace.push(json!({"op": op.describe(reg), "result": r.json()}));
                if !r.is_ok() && problem.is_none() {
                    problem = Some(("fault-free-step-failed".into(), format!("{} -> {:?}", op.describe(reg), r)));
                }
                continue;
            }
            // ---- the faulted step ----
            let root_rel = (reg[op.ty].output_path)().and_then(|p| norm_rel(cfg.dname, &p.to_string_lossy()));
            let before = snapshot(&w.root);
            let mut cleanup: Vec<Cleanup> = vec![];
            let mut faulted_op = op.clone();
            let mut retry = true;
            let mut ok_allowed = false;
            let mut from_root_dir = false;
            let mut replay_earlier = false;
            let mut target_set: BTreeSet<String> = w
                .decls_of(op)
                .iter()
                .filter_map(|(p, _)| norm_rel(cfg.dname, p))
                .collect();
            match obstacle {
                Obstacle::TargetIsDir => {
                    let Some(rel) = root_rel.clone() else { break };
                    let full = w.root.join(&rel);
                    if full.exists() {
                        skipped += 1;
                        break;
                    }
                    std::fs::create_dir_all(&full).unwrap();
                    // directories created on the way are legitimately there afterwards
                    cleanup.push(Cleanup::RemoveDir(full));
                }
                // (a registered file that merely disappeared is not an obstacle: it is written again from scratch)
                Obstacle::ExistingTargetIsDir => {
                    let Some(rel) = root_rel.clone() else { break };
                    let full = w.root.join(&rel);
                    let ident = (reg[op.ty].ident)();
                    let recorded = verif::registry_snapshot().get(&full).map_or(false, |names| names.contains(&ident));
                    // only meaningful when the file exists and was written in this registry lifetime - by another type of the
                    // file (the call has to merge into it) or by this very type (the call has to notice that its file is gone)
                    let _ = recorded;
                    if !full.is_file() || !verif::registry_snapshot().contains_key(&full) {
                        skipped += 1;
                        break;
                    }
                    let bytes = std::fs::read(&full).unwrap();
                    std::fs::remove_file(&full).unwrap();
                    std::fs::create_dir(&full).unwrap();
                    if rng.chance(1, 2) {
                        // the file is gone for good (the directory that took its place is simply removed): the retry starts the
                        // file again, and the steps before are repeated - everything they wrote there has to come back
                        replay_earlier = true;
                    } else {
                        cleanup.push(Cleanup::Restore(full.clone(), bytes));
                    }
                    cleanup.push(Cleanup::RemoveDir(full));
                }
                Obstacle::ExistingTargetEmptied => {
                    let Some(rel) = root_rel.clone() else { break };
                    let full = w.root.join(&rel);
                    let ident = (reg[op.ty].ident)();
                    let snap = verif::registry_snapshot();
                    // the call has to read the file: it is recorded, but not for this type
                    if !full.is_file() || snap.get(&full).map_or(true, |names| names.contains(&ident)) {
                        skipped += 1;
                        break;
                    }
                    let bytes = std::fs::read(&full).unwrap();
                    // empty, or cut off inside the first line
                    let cut = [0usize, 0, 17, bytes.len().min(60)][rng.below(4)];
                    std::fs::write(&full, &bytes[..cut.min(bytes.len())]).unwrap();
                    cleanup.push(Cleanup::Restore(full.clone(), bytes));
                    ok_allowed = true;
                }
                Obstacle::ParentIsFile => {
                    let Some(rel) = root_rel.clone() else { break };
                    // first missing ancestor of the target becomes a regular file
                    let comps: Vec<&str> = rel.split('/').collect();
                    let mut placed = false;
                    for j in 1..comps.len() {
                        let anc = w.root.join(comps[..j].join("/"));
                        if !anc.exists() {
                            if let Some(p) = anc.parent() {
                                std::fs::create_dir_all(p).unwrap();
                            }
                            std::fs::write(&anc, b"i am a file").unwrap();
                            cleanup.push(Cleanup::RemoveFile(anc));
                            placed = true;
                            break;
                        }
                    }
                    if !placed {
                        skipped += 1;
                        break;
                    }
                }
                Obstacle::DepTargetIsDir => {
                    if matches!(op.kind, OpKind::Export) {
                        skipped += 1;
                        break;
                    }
                    let deps: Vec<String> = target_set.iter().filter(|p| Some(*p) != root_rel.as_ref()).cloned().collect();
                    let free: Vec<&String> = deps.iter().filter(|p| !w.root.join(p).exists()).collect();
                    if free.is_empty() {
                        skipped += 1;
                        break;
                    }
                    let full = w.root.join(free[rng.below(free.len())]);
                    std::fs::create_dir_all(&full).unwrap();
                    cleanup.push(Cleanup::RemoveDir(full));
                }
                Obstacle::AboveRoot => {
                    // one step above the root (the `..` that would pop the root itself), two, or many
                    let depth = std::env::current_dir().map(|d| d.components().count().saturating_sub(1)).unwrap_or(8);
                    let n = [depth + 1, depth + 1, depth + 2, 64][rng.below(4)];
                    let spelling = if rng.chance(1, 4) {
                        // the same relative directory is fine from here and climbs above the root from `/`: the call is made
                        // with the working directory moved there (and moved back before the retry)
                        from_root_dir = true;
                        "../abv-from-root".to_string()
                    } else if rng.chance(1, 3) {
                        // the same through an absolute directory: from the scratch root up past `/`, and (as the operating
                        // system would resolve it, `/..` being `/`) back down into the scratch root
                        let abs = w.root.to_string_lossy().to_string();
                        format!("{abs}/{}{}/abv", "../".repeat(n.max(abs.split('/').count())), abs.trim_start_matches('/'))
                    } else {
                        format!("{}x", "../".repeat(n))
                    };
                    faulted_op = Op { ty: op.ty, kind: OpKind::ExportAllTo(spelling) };
                    target_set.clear();
                }
                Obstacle::NotExportable => {
                    if prims.is_empty() {
                        break;
                    }
                    let p = prims[rng.below(prims.len())];
                    // the entry point that writes nothing refuses such a root the same way
                    match guarded(reg[p].export_to_string) {
                        Err(panic) => problem = Some(("panic-instead-of-error".into(), format!("{}::export_to_string() with NotExportable: {panic}", reg[p].rust))),
                        Ok(Ok(text)) => problem = Some(("ok-despite-obstacle".into(), format!("{}::export_to_string() returned Ok: {}", reg[p].rust, text.chars().take(120).collect::<String>()))),
                        Ok(Err(_)) => {}
                    }
                    faulted_op = Op { ty: p, kind: op.kind.clone() };
                    target_set.clear();
                    retry = true;
                }
            }
            did_inject = true;
            *injected.entry(format!("{obstacle:?}")).or_default() += 1;
            let with_obstacle = snapshot(&w.root);
            let registry_before = verif::registry_snapshot();
            if from_root_dir {
                std::env::set_current_dir("/").unwrap();
            }
            let r = run_op(reg, &faulted_op);
            if from_root_dir {
                std::env::set_current_dir(&w.root).unwrap();
            }
            trace.push(json!({"op": faulted_op.describe(reg), "obstacle": format!("{obstacle:?}"), "from_root_dir": from_root_dir, "result": r.json()}));
            match &r {
                Outcome::Err(_) => {}
                Outcome::Panic(p) => problem = Some(("panic-instead-of-error".into(), format!("{} with {obstacle:?}: {p}", faulted_op.describe(reg)))),
                Outcome::Ok if ok_allowed => {
                    // carried out after all: the file was started again and holds the exported type; what the emptied
                    // file held before is not this call's to bring back, so the history ends here
                    let ident = (reg[faulted_op.ty].ident)();
                    let text = root_rel.as_ref().and_then(|rel| std::fs::read_to_string(w.root.join(rel)).ok()).unwrap_or_default();
                    let declared = tsmodel::parse::parse_module(&text).map(|m| m.decls().any(|d| d.name == ident));
                    if !text.starts_with(verif::NOTE) || declared != Ok(true) {
                        problem = Some(("ok-but-file-unusable".into(), format!("{} with {obstacle:?} returned Ok, the file reads: {}", faulted_op.describe(reg), text.chars().take(300).collect::<String>())));
                    }
                    if verif::registry_is_poisoned() && problem.is_none() {
                        problem = Some(("registry-poisoned".into(), format!("after {}", faulted_op.describe(reg))));
                    }
                    histories += 1;
                    distinct.insert(format!("{}|{obstacle:?}@{k}|ok|{}", cfg.name, reg[ops[k].ty].id));
                    if let Some((kind, what)) = problem.take() {
                        fails += 1;
                        log.emit(json!({"ev": "fail", "monitor": "C17", "kind": kind, "what": what, "config": cfg.name, "obstacle": format!("{obstacle:?}"),
                            "position": k, "shape": [], "history": trace}));
                    }
                    did_inject = false;
                    break;
                }
                Outcome::Ok => problem = Some(("ok-despite-obstacle".into(), format!("{} with {obstacle:?} returned Ok", faulted_op.describe(reg)))),
            }
            if verif::registry_is_poisoned() && problem.is_none() {
                problem = Some(("registry-poisoned".into(), format!("after {}", faulted_op.describe(reg))));
            }
            // every file outside the call's target set is untouched
            let after = snapshot(&w.root);
            for (p, b) in &with_obstacle {
                if target_set.contains(p) {
                    continue;
                }
                if after.get(p) != Some(b) && problem.is_none() {
                    problem = Some(("other-file-touched".into(), format!("{p} changed during the failed call")));
                }
            }
            for p in after.keys() {
                if !with_obstacle.contains_key(p) && !target_set.contains(p) && !p.ends_with('/') && problem.is_none() {
                    problem = Some(("other-file-created".into(), format!("{p} appeared during the failed call")));
                }
            }
            // the registry records nothing for a file that could not be written
            for c in &cleanup {
                let (Cleanup::RemoveDir(path) | Cleanup::RemoveFile(path)) = c else { continue };
                let snap = verif::registry_snapshot();
                let ident = (reg[faulted_op.ty].ident)();
                // (a name the registry held before the call was recorded by an earlier, successful write)
                let was_there = registry_before.get(path).map_or(false, |names| names.contains(&ident));
                if snap.get(path).map_or(false, |names| names.contains(&ident)) && !was_there && problem.is_none() {
                    problem = Some(("failed-write-recorded".into(), format!("{ident} is recorded for {path:?} although the write failed")));
                }
            }
            let _ = before;
            // remove the obstacle and retry the original step
            for c in cleanup.iter().rev() {
                match c {
                    Cleanup::RemoveDir(path) => {
                        let _ = std::fs::remove_dir(path);
                    }
                    Cleanup::RemoveFile(path) => {
                        let _ = std::fs::remove_file(path);
                    }
                    Cleanup::Restore(path, bytes) => {
                        let _ = std::fs::write(path, bytes);
                    }
                }
            }
            if retry {
                let r2 = run_op(reg, op);
                trace.push(json!({"op": op.describe(reg), "retry": true, "result": r2.json()}));
                if !r2.is_ok() && problem.is_none() {
                    problem = Some(("retry-failed".into(), format!("{} after removing {obstacle:?} -> {:?}", op.describe(reg), r2)));
                }
            }
            if replay_earlier {
                for earlier in &ops[..i] {
                    let r3 = run_op(reg, earlier);
                    trace.push(json!({"op": earlier.describe(reg), "again": true, "result": r3.json()}));
                }
            }
        }
        if !did_inject {
            continue;
        }
        histories += 1;
        let fin = snapshot(&w.root);
        if problem.is_none() {
            // obstacles may leave empty directories behind (created by create_dir_all before the failure): ignore those
            let strip = |t: &Tree| -> Tree { t.iter().filter(|(k, _)| !k.ends_with('/')).map(|(k, v)| (k.clone(), v.clone())).collect() };
            if strip(&fin) != strip(&reference) {
                let diff: Vec<String> = strip(&reference)
                    .keys()
                    .chain(strip(&fin).keys())
                    .filter(|k| fin.get(*k) != reference.get(*k))
                    .cloned()
                    .collect::<BTreeSet<_>>()
                    .into_iter()
                    .collect();
                problem = Some(("final-tree-differs-from-fault-free-run".into(), format!("differing paths: {}", diff.join(", "))));
            }
        }
        let shape: Vec<String> = ops
            .iter()
            .map(|o| match &o.kind {
                OpKind::Export => "export".to_string(),
                OpKind::ExportAll => "export_all".to_string(),
                OpKind::ExportAllTo(_) => "export_all_to".to_string(),
            })
            .collect();
        distinct.insert(format!("{}|{obstacle:?}@{k}|{}|{}", cfg.name, shape.join(">"), reg[ops[k].ty].id));
        if sample.is_none() && ops.len() >= 2 {
            sample = Some(json!({"config": cfg.name, "history": trace.clone(), "final_files": fin.keys().cloned().collect::<Vec<_>>()}));
        }
        if let Some((kind, what)) = problem {
            fails += 1;
            if fails <= 60 {
                log.emit(json!({"ev": "fail", "monitor": "C17", "kind": kind, "what": what, "config": cfg.name, "obstacle": format!("{obstacle:?}"),
                    "position": k, "shape": shape, "history": trace, "final": tree_json(&fin), "reference": tree_json(&reference)}));
            } else {
                log.emit(json!({"ev": "fail", "monitor": "C17", "kind": kind, "what": what, "config": cfg.name,
                    "obstacle": format!("{obstacle:?}"), "position": k, "shape": shape}));
            }
        }
    }
    log.emit(json!({"ev": "summary", "monitor": "C17", "histories": histories, "injected": injected, "skipped": skipped, "fails": fails,
        "distinct": distinct.len(), "sample": sample}));
    clear_dir(&w.root);
    std::env::set_current_dir("/").ok();
    let _ = std::fs::remove_dir_all(args.scratch.join(format!("c17-{shard}")));
}
