//! C08: import specifiers resolve to the dependency's file, for every pair of paths.
//!
//! Calls the real `import_path` (through the `verif` hook – the exact function `generate_imports`
//! uses) on an exhaustive set of (importing file, imported file) pairs and checks the result with an
//! independent lexical resolver.

use std::path::{Path, PathBuf};

use serde_json::json;

use crate::{guarded, rng::Rng, Args, Log};

const INNER: &[&str] = &[".", "..", "a", "b", "a.b", "..a", "..."];
const FROM_FILES: &[&str] = &["a", "b", "a.b", "ts", "x.ts", "yts", "z.ts.ts", "b.ts", "..f.ts"];
const IMPORT_FILES: &[&str] = &["a.ts", "b.ts", "a.b.ts", "ts.ts", "x.ts", "yts.ts", "z.ts.ts", ".ts", "..f.ts"];
const BASES: &[&str] = &["./bindings", "out", "/abs/base", "p/../q/./r", "", ".", "./x/../../y", "/r"];

/// Lexical normalisation of `p` against `cwd`. `None` = the path climbs above the root.
pub fn norm(cwd: &str, p: &str) -> Option<Vec<String>> {
    let full = if p.starts_with('/') {
        p.to_string()
    } else {
        format!("{cwd}/{p}")
    };
    let mut out: Vec<String> = vec![];
    for c in full.split('/') {
        match c {
            "" | "." => {}
            ".." => {
                out.pop()?;
            }
            c => out.push(c.to_string()),
        }
    }
    Some(out)
}

fn rel_files(depth_max: usize, files: &[&str]) -> Vec<String> {
    // directories of 0..depth_max-1 inner components, then a file name
    let mut dirs: Vec<Vec<&str>> = vec![vec![]];
    let mut frontier: Vec<Vec<&str>> = vec![vec![]];
    for _ in 1..depth_max {
        let mut next = vec![];
        for d in &frontier {
            for c in INNER {
                let mut n = d.clone();
                n.push(*c);
                next.push(n);
            }
        }
        dirs.extend(next.iter().cloned());
        frontier = next;
    }
    let mut out = vec![];
    for d in dirs {
        for f in files {
            let mut comps = d.clone();
            comps.push(f);
            out.push(comps.join("/"));
        }
    }
    out
}

pub struct Judgement {
    pub ok: bool,
    pub reason: String,
}

pub fn judge(cwd: &str, from: &str, import: &str, spec: &str, esm: bool) -> Judgement {
    let bad = |r: String| Judgement { ok: false, reason: r };
    if !(spec.starts_with("./") || spec.starts_with("../")) {
        return bad("specifier is not relative (does not start with ./ or ../)".into());
    }
    if spec.contains('\\') {
        return bad("specifier contains a backslash".into());
    }
    let stem = if esm {
        match spec.strip_suffix(".js") {
            Some(s) => s,
            None => return bad("import-esm specifier does not end in .js".into()),
        }
    } else {
        spec
    };
    if !esm && stem.ends_with(".js") && !import.ends_with(".js.ts") {
        return bad("specifier ends in .js although import-esm is off".into());
    }
    let Some(mut dir) = norm(cwd, from) else {
        return Judgement { ok: true, reason: "above-root".into() };
    };
    dir.pop();
    let Some(expect) = norm(cwd, import) else {
        return Judgement { ok: true, reason: "above-root".into() };
    };
    let base = format!("/{}", dir.join("/"));
    let Some(resolved) = norm(&base, &format!("{stem}.ts")) else {
        return bad("specifier climbs above the root".into());
    };
    if resolved != expect {
        return bad(format!(
            "specifier resolves to /{} but the dependency is /{}",
            resolved.join("/"),
            expect.join("/")
        ));
    }
    if stem.ends_with(".ts") && !import.ends_with(".ts.ts") {
        return bad("specifier carries a .ts extension".into());
    }
    Judgement { ok: true, reason: String::new() }
}

pub fn c08(args: &Args, log: &mut Log) {
    let esm = cfg!(feature = "import-esm");
    let depth = if args.thorough() { 4 } else { 3 };
    let cwd_path = args.scratch.join("c08/deep/er/cwd");
    std::fs::create_dir_all(&cwd_path).unwrap();
    std::env::set_current_dir(&cwd_path).unwrap();
    let cwd = cwd_path.to_string_lossy().to_string();
    let froms = rel_files(depth, FROM_FILES);
    let imports = rel_files(depth, IMPORT_FILES);
    let shard = args.num("shard", 0) as usize;
    let shards = args.num("shards", 1).max(1) as usize;
    let mut rng = Rng::new(args.seed ^ ((shard as u64) << 32));
    let mut total = 0u64;
    let mut ok_results = 0u64;
    let mut err_results = 0u64;
    let mut above_root = 0u64;
    let mut distinct_specs = std::collections::HashSet::new();
    let mut fails = 0u64;
    let mut sampled = vec![];
    let mut fs_checked = 0u64;
    for base in BASES {
        for (fi, f) in froms.iter().enumerate() {
            if fi % shards != shard {
                continue;
            }
            for i in &imports {
                let from = join(base, f);
                let import = join(base, i);
                total += 1;
                let r = guarded(|| ts_rs::verif::import_path(Path::new(&from), Path::new(&import)));
                let (verdict, spec): (Option<String>, Option<String>) = match r {
                    Err(p) => (Some(format!("panic: {p}")), None),
                    Ok(Err(_)) => {
                        err_results += 1;
                        // an error is only acceptable when a path climbs above the root
                        if norm(&cwd, &from).is_none() || norm(&cwd, &import).is_none() {
                            (None, None)
                        } else {
                            (Some("returned Err for resolvable paths".into()), None)
                        }
                    }
                    Ok(Ok(spec)) => {
                        ok_results += 1;
                        let j = judge(&cwd, &from, &import, &spec, esm);
                        if j.reason == "above-root" {
                            above_root += 1;
                        }
                        distinct_specs.insert(spec.clone());
                        (if j.ok { None } else { Some(j.reason) }, Some(spec))
                    }
                };
                if let Some(reason) = verdict {
                    fails += 1;
                    if fails <= 400 {
                        log.emit(json!({"ev": "fail", "monitor": "C08", "esm": esm, "cwd": cwd, "from": from, "import": import,
                            "spec": spec, "reason": reason,
                            "class": classify(&import, &from)}));
                    }
                } else if let Some(spec) = spec {
                    // 1% sample for the cross-check in python (posixpath), 0.05% against the real file system
                    if rng.chance(1, 100) && sampled.len() < 20000 {
                        sampled.push(json!([from, import, spec]));
                    }
                    if rng.chance(1, 2000) && !from.starts_with('/') {
                        if let Some(problem) = fs_check(&args.scratch.join("c08fs"), &from, &import, &spec, esm) {
                            fails += 1;
                            log.emit(json!({"ev": "fail", "monitor": "C08", "esm": esm, "from": from, "import": import, "spec": spec,
                                "reason": format!("file system disagrees: {problem}"), "class": "fs"}));
                        }
                        fs_checked += 1;
                    }
                }
            }
        }
    }
    // degenerate importing "files" (the root, the empty path, a path ending in `..`): no specifier exists for them, but
    // the answer is an error value (or whatever specifier the function stands by) - never a panic
    if shard == 0 {
        for from in ["/", "", ".", "..", "/..", "a/..", "/."] {
            for import in ["/a/b.ts", "a.ts", "../x/y.ts", "/"] {
                total += 1;
                if let Err(p) = guarded(|| ts_rs::verif::import_path(Path::new(from), Path::new(import))) {
                    fails += 1;
                    log.emit(json!({"ev": "fail", "monitor": "C08", "esm": esm, "cwd": cwd, "from": from, "import": import,
                        "spec": null, "reason": format!("panic: {p}"), "class": "degenerate-importer"}));
                }
            }
        }
    }
    log.emit(json!({"ev": "summary", "monitor": "C08", "esm": esm, "cwd": cwd, "pairs": total, "ok_results": ok_results,
        "err_results": err_results, "above_root": above_root, "distinct_specifiers": distinct_specs.len(), "fails": fails,
        "fs_checked": fs_checked, "depth": depth, "bases": BASES, "sampled": sampled}));
}

fn join(base: &str, rel: &str) -> String {
    // what `out_dir.join(output_path)` does
    PathBuf::from(base).join(rel).to_string_lossy().to_string()
}

fn classify(import: &str, from: &str) -> String {
    let f = import.rsplit('/').next().unwrap_or("");
    if f.ends_with(".ts.ts") {
        return "import-file-name-ends-in-repeated-.ts".into();
    }
    if f == ".ts" {
        return "import-file-name-is-.ts".into();
    }
    let _ = from;
    "other".into()
}

/// Creates both files under `root` and resolves the specifier with the real file system.
fn fs_check(root: &Path, from: &str, import: &str, spec: &str, esm: bool) -> Option<String> {
    // same trailing components as the monitor's cwd: specifiers that climb above it mention these names
    let root = root.join("c08/deep/er/cwd");
    let rootn = root.to_string_lossy().to_string();
    let from_n = norm(&rootn, from)?;
    let import_n = norm(&rootn, import)?;
    let from_p = PathBuf::from(format!("/{}", from_n.join("/")));
    let import_p = PathBuf::from(format!("/{}", import_n.join("/")));
    if !from_p.starts_with(root.parent()?.parent()?.parent()?.parent()?) {
        return None;
    }
    std::fs::create_dir_all(from_p.parent()?).ok()?;
    std::fs::create_dir_all(import_p.parent()?).ok()?;
    std::fs::write(&import_p, b"x").ok()?;
    let stem = if esm { spec.strip_suffix(".js")? } else { spec };
    let target = from_p.parent()?.join(format!("{stem}.ts"));
    match (std::fs::canonicalize(&target), std::fs::canonicalize(&import_p)) {
        (Ok(a), Ok(b)) if a == b => None,
        (a, b) => Some(format!("{target:?} -> {a:?} vs {b:?}")),
    }
}
