//! Directory snapshots and the export-operation vocabulary shared by C05/C06/C11/C17.

use std::{
    collections::BTreeMap,
    path::{Path, PathBuf},
};

use serde_json::{json, Value};

use crate::{guarded, TypeEntry};

pub type Tree = BTreeMap<String, Vec<u8>>;

/// All regular files below `root` (relative, `/`-separated). Directories appear as `name/` with empty content
/// only when they are empty (so that a stray directory is visible).
pub fn snapshot(root: &Path) -> Tree {
    let mut out = Tree::new();
    fn go(base: &Path, dir: &Path, out: &mut Tree) {
        let Ok(rd) = std::fs::read_dir(dir) else { return };
        let mut any = false;
        for e in rd.flatten() {
            any = true;
            let p = e.path();
            let ft = e.file_type().ok();
            if ft.map_or(false, |t| t.is_symlink()) {
                continue; // (a link made by the harness: what lies behind it is listed where it really is)
            }
            if ft.map_or(false, |t| t.is_dir()) {
                go(base, &p, out);
            } else {
                let rel = p.strip_prefix(base).unwrap().to_string_lossy().to_string();
                out.insert(rel, std::fs::read(&p).unwrap_or_default());
            }
        }
        if !any && dir != base {
            let rel = dir.strip_prefix(base).unwrap().to_string_lossy().to_string();
            out.insert(format!("{rel}/"), vec![]);
        }
    }
    go(root, root, &mut out);
    out
}

/// The tree without the markers of empty directories.
pub fn files_only(t: &Tree) -> Tree {
    t.iter().filter(|(k, _)| !k.ends_with('/')).map(|(k, v)| (k.clone(), v.clone())).collect()
}

pub fn tree_json(t: &Tree) -> Value {
    Value::Object(
        t.iter()
            .map(|(k, v)| (k.clone(), Value::String(String::from_utf8_lossy(v).to_string())))
            .collect(),
    )
}

pub fn clear_dir(root: &Path) {
    if let Ok(rd) = std::fs::read_dir(root) {
        for e in rd.flatten() {
            let p = e.path();
            if p.is_dir() && !p.is_symlink() {
                let _ = std::fs::remove_dir_all(&p);
            } else {
                let _ = std::fs::remove_file(&p);
            }
        }
    }
}

#[derive(Clone, Debug, PartialEq, Eq, Hash, PartialOrd, Ord)]
pub enum OpKind {
    Export,
    ExportAll,
    ExportAllTo(String),
}

#[derive(Clone, Debug, PartialEq, Eq, Hash, PartialOrd, Ord)]
pub struct Op {
    pub ty: usize,
    pub kind: OpKind,
}

impl Op {
    pub fn describe(&self, reg: &[TypeEntry]) -> String {
        match &self.kind {
            OpKind::Export => format!("{}::export()", reg[self.ty].rust),
            OpKind::ExportAll => format!("{}::export_all()", reg[self.ty].rust),
            OpKind::ExportAllTo(d) => format!("{}::export_all_to({d:?})", reg[self.ty].rust),
        }
    }
}

#[derive(Clone, Debug)]
pub enum Outcome {
    Ok,
    Err(String),
    Panic(String),
}

impl Outcome {
    pub fn json(&self) -> Value {
        match self {
            Outcome::Ok => json!("ok"),
            Outcome::Err(e) => json!({"err": e}),
            Outcome::Panic(p) => json!({"panic": p}),
        }
    }
    pub fn is_ok(&self) -> bool {
        matches!(self, Outcome::Ok)
    }
}

pub fn run_op(reg: &[TypeEntry], op: &Op) -> Outcome {
    let e = &reg[op.ty];
    let r = match &op.kind {
        OpKind::Export => guarded(|| (e.export)()),
        OpKind::ExportAll => guarded(|| (e.export_all)()),
        OpKind::ExportAllTo(d) => guarded(|| (e.export_all_to)(&PathBuf::from(d))),
    };
    match r {
        Ok(Ok(())) => Outcome::Ok,
        Ok(Err(e)) => Outcome::Err(e),
        Err(p) => Outcome::Panic(p),
    }
}

/// Lexically normalised `base/rel` relative to `root` (both `base` and the result are relative to `root`).
pub fn norm_rel(base: &str, rel: &str) -> Option<String> {
    let mut out: Vec<&str> = vec![];
    for c in base.split('/').chain(rel.split('/')) {
        match c {
            "" | "." => {}
            ".." => {
                out.pop()?;
            }
            c => out.push(c),
        }
    }
    Some(out.join("/"))
}

/// Names of the types declared in a TypeScript file (by swc), or Err(parse error).
pub fn declared_names(bytes: &[u8]) -> Result<Vec<String>, String> {
    let text = String::from_utf8_lossy(bytes);
    let m = tsmodel::parse::parse_module(&text)?;
    Ok(m.decls().map(|d| d.name.clone()).collect())
}
