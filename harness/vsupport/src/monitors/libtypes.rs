//! C12: built-in impls describe serde's representation of library types.

use std::{
    any::TypeId,
    borrow::Cow,
    cell::{Cell, RefCell},
    collections::{BTreeMap, BTreeSet, HashMap, HashSet},
    marker::PhantomData,
    net::{IpAddr, Ipv4Addr, Ipv6Addr, SocketAddr, SocketAddrV4, SocketAddrV6},
    num::*,
    ops::{Range, RangeInclusive},
    path::PathBuf,
    rc::Rc,
    sync::{Arc, Mutex, RwLock},
};

use serde::{de::DeserializeOwned, Deserialize, Serialize};
use serde_json::{json, Value};
use ts_rs::{TypeVisitor, TS};
use tsmodel::{parse, Env, Verdict};

use crate::{guarded, Args, Log};

/// User types standing at the leaves of composed library types.
#[derive(TS, Serialize, Deserialize, Clone, Debug, PartialEq, Eq, Hash, PartialOrd, Ord)]
#[ts(crate = "ts_rs")]
pub struct LU {
    pub x: u8,
}

#[derive(TS, Serialize, Deserialize, Clone, Debug, PartialEq, Eq, Hash, PartialOrd, Ord)]
#[ts(crate = "ts_rs")]
pub enum LK {
    Ka,
    Kb,
}

/// A user type that has a dependency of its own (what an *inlined* container of it depends on).
#[derive(TS, Serialize, Deserialize, Clone, Debug, PartialEq, Eq, Hash, PartialOrd, Ord)]
#[ts(crate = "ts_rs")]
pub struct LW {
    pub inner: LU,
}

/// A borrowed form whose owned form is a different type of a different shape (a hand-written `ToOwned`): `Cow<LHeader>` is
/// written by serde as an `LHeader`, whichever variant it holds.
#[derive(TS, Serialize, Debug, PartialEq)]
#[ts(crate = "ts_rs")]
pub struct LHeader {
    pub id: u8,
}

#[derive(TS, Serialize, Deserialize, Clone, Debug, PartialEq)]
#[ts(crate = "ts_rs")]
pub struct LHeaderBuf {
    #[serde(skip)]
    #[ts(skip)]
    pub header: LHeaderSlot,
    pub note: String,
}

#[derive(Debug, PartialEq)]
pub struct LHeaderSlot(pub LHeader);
impl Default for LHeaderSlot {
    fn default() -> Self {
        LHeaderSlot(LHeader { id: 0 })
    }
}
impl Clone for LHeaderSlot {
    fn clone(&self) -> Self {
        LHeaderSlot(LHeader { id: self.0.id })
    }
}
impl std::borrow::Borrow<LHeader> for LHeaderBuf {
    fn borrow(&self) -> &LHeader {
        &self.header.0
    }
}
impl ToOwned for LHeader {
    type Owned = LHeaderBuf;
    fn to_owned(&self) -> LHeaderBuf {
        LHeaderBuf { header: LHeaderSlot(LHeader { id: self.id }), note: "owned".into() }
    }
}
static L_HEADER: LHeader = LHeader { id: 7 };

fn lw(x: u8) -> LW {
    LW { inner: lu(x) }
}

fn lu(x: u8) -> LU {
    LU { x }
}

pub struct LibEntry {
    pub rust: &'static str,
    pub family: &'static str,
    pub name: Result<String, String>,
    pub inline: Result<String, String>,
    /// `TS::IS_OPTION` and the name of `TS::OptionInnerType`: what `#[ts(optional)]` / `optional_fields` go by
    /// names of `TS::dependencies()`: what the inlined spelling depends on
    pub deps: Vec<String>,
    pub is_option: bool,
    pub option_inner_name: Result<String, String>,
    pub samples: Vec<Result<Value, String>>,
    pub roundtrip: Option<fn(&str) -> Result<Value, String>>,
    /// idents of exportable types reported as this type's type arguments (visit_generics)
    pub generics: Vec<String>,
    pub expect_generics: Vec<&'static str>,
    pub expect_name: Option<&'static str>,
    /// the TypeScript `string` behind this type is a parsed format: witnesses take strings from real samples
    pub depth: u8,
}

struct Idents(Vec<String>, Vec<TypeId>);
impl TypeVisitor for Idents {
    fn visit<T: TS + 'static + ?Sized>(&mut self) {
        if T::output_path().is_some() && !self.1.contains(&TypeId::of::<T>()) {
            self.1.push(TypeId::of::<T>());
            self.0.push(T::ident());
        }
    }
}

fn generics_of<T: TS + 'static + ?Sized>() -> Vec<String> {
    let mut v = Idents(vec![], vec![]);
    let _ = guarded(|| {
        v.visit::<T>();
        T::visit_generics(&mut v)
    });
    v.0.sort();
    v.0
}

fn rt<T: Serialize + DeserializeOwned>(text: &str) -> Result<Value, String> {
    let v: T = serde_json::from_str(text).map_err(|e| e.to_string())?;
    serde_json::to_value(&v).map_err(|e| format!("reserialize: {e}"))
}

fn ser<T: Serialize>(vals: &[T]) -> Vec<Result<Value, String>> {
    vals.iter().map(|v| serde_json::to_value(v).map_err(|e| e.to_string())).collect()
}

macro_rules! entry {
    // serialize + deserialize
    (sd $fam:literal $d:literal $t:ty, [$($v:expr),* $(,)?], gen [$($g:literal),*] $(, name $n:literal)?) => {
        LibEntry {
            rust: stringify!($t), family: $fam,
            name: guarded(|| <$t as TS>::name()), inline: guarded(|| <$t as TS>::inline()),
            deps: { let mut d: Vec<String> = guarded(|| <$t as TS>::dependencies()).unwrap_or_default().into_iter().map(|d| d.ts_name).collect(); d.sort(); d.dedup(); d },
            is_option: <$t as TS>::IS_OPTION, option_inner_name: guarded(|| <<$t as TS>::OptionInnerType as TS>::name()),
            samples: { let vals: Vec<$t> = vec![$($v),*]; ser(&vals) },
            roundtrip: Some(rt::<$t>),
            generics: generics_of::<$t>(), expect_generics: vec![$($g),*],
            expect_name: { let mut _n: Option<&'static str> = None; $(_n = Some($n);)? _n }, depth: $d,
        }
    };
    // serialize only
    (s $fam:literal $d:literal $t:ty, [$($v:expr),* $(,)?], gen [$($g:literal),*] $(, name $n:literal)?) => {
        LibEntry {
            rust: stringify!($t), family: $fam,
            name: guarded(|| <$t as TS>::name()), inline: guarded(|| <$t as TS>::inline()),
            deps: { let mut d: Vec<String> = guarded(|| <$t as TS>::dependencies()).unwrap_or_default().into_iter().map(|d| d.ts_name).collect(); d.sort(); d.dedup(); d },
            is_option: <$t as TS>::IS_OPTION, option_inner_name: guarded(|| <<$t as TS>::OptionInnerType as TS>::name()),
            samples: { let vals: Vec<$t> = vec![$($v),*]; ser(&vals) },
            roundtrip: None,
            generics: generics_of::<$t>(), expect_generics: vec![$($g),*],
            expect_name: { let mut _n: Option<&'static str> = None; $(_n = Some($n);)? _n }, depth: $d,
        }
    };
    // name only (serde cannot serialize it here)
    (n $fam:literal $d:literal $t:ty, gen [$($g:literal),*] $(, name $n:literal)?) => {
        LibEntry {
            rust: stringify!($t), family: $fam,
            name: guarded(|| <$t as TS>::name()), inline: guarded(|| <$t as TS>::inline()),
            deps: { let mut d: Vec<String> = guarded(|| <$t as TS>::dependencies()).unwrap_or_default().into_iter().map(|d| d.ts_name).collect(); d.sort(); d.dedup(); d },
            is_option: <$t as TS>::IS_OPTION, option_inner_name: guarded(|| <<$t as TS>::OptionInnerType as TS>::name()),
            samples: vec![], roundtrip: None,
            generics: generics_of::<$t>(), expect_generics: vec![$($g),*],
            expect_name: { let mut _n: Option<&'static str> = None; $(_n = Some($n);)? _n }, depth: $d,
        }
    };
}

macro_rules! arrays {
    ($out:ident; $($n:literal),*) => {$(
        $out.push(entry!(sd "array" 1 [u8; $n], [[7u8; $n]], gen []));
        $out.push(entry!(sd "array" 2 [LU; $n], [std::array::from_fn::<LU, $n, _>(|i| lu(i as u8))], gen ["LU"]));
    )*};
}
macro_rules! big_arrays {
    ($out:ident; $($n:literal),*) => {$(
        $out.push(entry!(n "array" 1 [u8; $n], gen []));
        $out.push(entry!(n "array" 2 [Option<LU>; $n], gen ["LU"]));
    )*};
}

fn hm<K: std::hash::Hash + Eq, V>(kv: Vec<(K, V)>) -> HashMap<K, V> {
    kv.into_iter().collect()
}
fn bm<K: Ord, V>(kv: Vec<(K, V)>) -> BTreeMap<K, V> {
    kv.into_iter().collect()
}

#[allow(clippy::vec_init_then_push)]
pub fn table(thorough: bool) -> Vec<LibEntry> {
    let mut t: Vec<LibEntry> = vec![];
    // ---- primitives ------------------------------------------------------------------------
    t.push(entry!(sd "prim" 0 u8, [0, 255], gen [], name "number"));
    t.push(entry!(sd "prim" 0 i8, [-128, 127], gen [], name "number"));
    t.push(entry!(sd "prim" 0 u16, [0, 65535], gen [], name "number"));
    t.push(entry!(sd "prim" 0 i16, [-32768, 32767], gen [], name "number"));
    t.push(entry!(sd "prim" 0 u32, [0, u32::MAX], gen [], name "number"));
    t.push(entry!(sd "prim" 0 i32, [i32::MIN, i32::MAX], gen [], name "number"));
    t.push(entry!(sd "prim" 0 u64, [0, u64::MAX], gen [], name "bigint"));
    t.push(entry!(sd "prim" 0 i64, [i64::MIN, i64::MAX], gen [], name "bigint"));
    t.push(entry!(sd "prim" 0 u128, [0, u64::MAX as u128], gen [], name "bigint"));
    t.push(entry!(sd "prim" 0 i128, [i64::MIN as i128, 0], gen [], name "bigint"));
    t.push(entry!(sd "prim" 0 usize, [0, 1 << 40], gen [], name "number"));
    t.push(entry!(sd "prim" 0 isize, [-1, 1 << 40], gen [], name "number"));
    t.push(entry!(sd "prim" 0 f32, [0.0, -1.5, 3.0e30], gen [], name "number"));
    t.push(entry!(sd "prim" 0 f64, [0.0, -1.5, 3.0e300], gen [], name "number"));
    // the values JSON has no spelling for: serde_json writes `null` (known finding)
    t.push(entry!(s "non-finite-float" 0 f64, [f64::NAN, f64::INFINITY, f64::NEG_INFINITY], gen [], name "number"));
    t.push(entry!(s "non-finite-float" 0 f32, [f32::NAN], gen [], name "number"));
    t.push(entry!(s "non-finite-float" 1 Vec<f64>, [vec![1.0, f64::NAN]], gen []));
    t.push(entry!(sd "prim" 0 bool, [true, false], gen [], name "boolean"));
    t.push(entry!(sd "prim" 0 char, ['a', 'é', '"'], gen [], name "string"));
    t.push(entry!(sd "prim" 0 String, [String::new(), "x\"y".to_string()], gen [], name "string"));
    t.push(entry!(sd "prim" 0 (), [()], gen [], name "null"));
    t.push(entry!(s "prim" 0 &'static str, ["", "abc"], gen [], name "string"));
    t.push(entry!(sd "nonzero" 0 NonZeroU8, [NonZeroU8::new(1).unwrap(), NonZeroU8::MAX], gen [], name "number"));
    t.push(entry!(sd "nonzero" 0 NonZeroI8, [NonZeroI8::new(-1).unwrap(), NonZeroI8::MAX], gen [], name "number"));
    t.push(entry!(sd "nonzero" 0 NonZeroU16, [NonZeroU16::MAX], gen [], name "number"));
    t.push(entry!(sd "nonzero" 0 NonZeroI16, [NonZeroI16::MIN], gen [], name "number"));
    t.push(entry!(sd "nonzero" 0 NonZeroU32, [NonZeroU32::MAX], gen [], name "number"));
    t.push(entry!(sd "nonzero" 0 NonZeroI32, [NonZeroI32::MIN], gen [], name "number"));
    t.push(entry!(sd "nonzero" 0 NonZeroU64, [NonZeroU64::MAX], gen [], name "bigint"));
    t.push(entry!(sd "nonzero" 0 NonZeroI64, [NonZeroI64::MIN], gen [], name "bigint"));
    t.push(entry!(sd "nonzero" 0 NonZeroU128, [NonZeroU128::new(7).unwrap()], gen [], name "bigint"));
    t.push(entry!(sd "nonzero" 0 NonZeroI128, [NonZeroI128::new(-7).unwrap()], gen [], name "bigint"));
    t.push(entry!(sd "nonzero" 0 NonZeroUsize, [NonZeroUsize::new(9).unwrap()], gen [], name "number"));
    t.push(entry!(sd "nonzero" 0 NonZeroIsize, [NonZeroIsize::new(-9).unwrap()], gen [], name "number"));
    // ---- strings, paths, network -----------------------------------------------------------
    t.push(entry!(sd "path" 0 PathBuf, [PathBuf::from("/a/b.txt"), PathBuf::from("rel")], gen [], name "string"));
    t.push(entry!(sd "net" 0 Ipv4Addr, [Ipv4Addr::new(127, 0, 0, 1)], gen [], name "string"));
    t.push(entry!(sd "net" 0 Ipv6Addr, [Ipv6Addr::LOCALHOST], gen [], name "string"));
    t.push(entry!(sd "net" 0 IpAddr, [IpAddr::V4(Ipv4Addr::new(10, 0, 0, 1)), IpAddr::V6(Ipv6Addr::LOCALHOST)], gen [], name "string"));
    t.push(entry!(sd "net" 0 SocketAddrV4, [SocketAddrV4::new(Ipv4Addr::new(1, 2, 3, 4), 80)], gen [], name "string"));
    t.push(entry!(sd "net" 0 SocketAddrV6, [SocketAddrV6::new(Ipv6Addr::LOCALHOST, 8080, 0, 0)], gen [], name "string"));
    t.push(entry!(sd "net" 0 SocketAddr, ["1.2.3.4:5".parse().unwrap(), "[::1]:6".parse().unwrap()], gen [], name "string"));
    // ---- Option / Result / sequences -------------------------------------------------------
    t.push(entry!(sd "option" 1 Option<i32>, [None, Some(3)], gen [], name "number | null"));
    t.push(entry!(sd "option" 2 Option<LU>, [None, Some(lu(1))], gen ["LU"], name "LU | null"));
    t.push(entry!(sd "option" 2 Option<Option<String>>, [None, Some(None), Some(Some("s".into()))], gen []));
    t.push(entry!(sd "result" 1 Result<i32, String>, [Ok(1), Err("e".into())], gen []));
    t.push(entry!(sd "result" 2 Result<LU, LK>, [Ok(lu(2)), Err(LK::Kb)], gen ["LK", "LU"]));
    t.push(entry!(sd "seq" 1 Vec<u64>, [vec![], vec![1, u64::MAX]], gen [], name "Array<bigint>"));
    t.push(entry!(sd "seq" 2 Vec<LU>, [vec![], vec![lu(1), lu(2)]], gen ["LU"], name "Array<LU>"));
    t.push(entry!(sd "seq" 2 Vec<Vec<Option<bool>>>, [vec![], vec![vec![], vec![None, Some(true)]]], gen []));
    t.push(entry!(sd "seq" 1 Box<[i16]>, [vec![1i16, -2].into_boxed_slice()], gen [], name "Array<number>"));
    t.push(entry!(sd "set" 1 HashSet<String>, [HashSet::new(), ["a".to_string()].into_iter().collect()], gen [], name "Array<string>"));
    t.push(entry!(sd "set" 2 BTreeSet<LU>, [[lu(1), lu(3)].into_iter().collect()], gen ["LU"], name "Array<LU>"));
    // `[T; 0]` is declared `[]`: it does not mention T, so T is no dependency (an import would be unused, C03)
    t.push(entry!(sd "array" 1 [u8; 0], [[7u8; 0]], gen [], name "[]"));
    t.push(entry!(sd "array" 2 [LU; 0], [[]], gen [], name "[]"));
    arrays!(t; 1, 2, 3, 4, 5, 6, 7, 8, 9, 10, 11, 12, 13, 14, 15, 16, 17, 18, 19, 20, 21, 22, 23, 24, 25, 26, 27, 28, 29, 30, 31, 32);
    big_arrays!(t; 33, 40, 48, 63, 64, 65);
    // ---- tuples ----------------------------------------------------------------------------
    t.push(entry!(sd "tuple" 1 (i32,), [(1,)], gen [], name "[number]"));
    t.push(entry!(sd "tuple" 2 (LU, String), [(lu(1), "s".into())], gen ["LU"], name "[LU, string]"));
    t.push(entry!(sd "tuple" 1 (u8, bool, char), [(1, true, 'c')], gen []));
    t.push(entry!(sd "tuple" 1 (u8, u8, u8, u8), [(1, 2, 3, 4)], gen []));
    t.push(entry!(sd "tuple" 2 (u8, Option<LK>, u8, u8, String), [(1, Some(LK::Ka), 3, 4, "x".into())], gen ["LK"]));
    t.push(entry!(sd "tuple" 1 (u8, u8, u8, u8, u8, u8), [(1, 2, 3, 4, 5, 6)], gen []));
    t.push(entry!(sd "tuple" 1 (u8, u8, u8, u8, u8, u8, u64), [(1, 2, 3, 4, 5, 6, 7)], gen []));
    t.push(entry!(sd "tuple" 1 (u8, u8, u8, u8, u8, u8, u8, bool), [(1, 2, 3, 4, 5, 6, 7, false)], gen []));
    t.push(entry!(sd "tuple" 2 (u8, u8, u8, u8, u8, u8, u8, u8, LU), [(1, 2, 3, 4, 5, 6, 7, 8, lu(9))], gen ["LU"]));
    t.push(entry!(sd "tuple" 1 (u8, u8, u8, u8, u8, u8, u8, u8, u8, ()), [(1, 2, 3, 4, 5, 6, 7, 8, 9, ())], gen []));
    // ---- maps ------------------------------------------------------------------------------
    t.push(entry!(sd "map" 1 HashMap<String, i32>, [HashMap::new(), hm(vec![("k".to_string(), 1)])], gen []));
    t.push(entry!(sd "map" 2 BTreeMap<String, LU>, [bm(vec![("k".to_string(), lu(1)), ("".to_string(), lu(2))])], gen ["LU"]));
    t.push(entry!(sd "map" 1 HashMap<u8, bool>, [hm(vec![(0u8, true), (255, false)])], gen []));
    t.push(entry!(sd "map" 1 BTreeMap<i64, String>, [bm(vec![(i64::MIN, "a".to_string()), (7, "b".to_string())])], gen []));
    t.push(entry!(sd "map" 1 BTreeMap<u128, u8>, [bm(vec![(3u128, 1u8)])], gen []));
    t.push(entry!(sd "map" 1 HashMap<char, u8>, [hm(vec![('c', 1u8)])], gen []));
    t.push(entry!(sd "map" 1 HashMap<bool, u8>, [hm(vec![(true, 1u8)])], gen []));
    t.push(entry!(sd "map" 2 BTreeMap<LK, Vec<LU>>, [bm(vec![(LK::Ka, vec![lu(1)])]), BTreeMap::new()], gen ["LK", "LU"]));
    t.push(entry!(sd "map" 1 HashMap<NonZeroU16, f32>, [hm(vec![(NonZeroU16::MAX, 0.5f32)])], gen []));
    // ---- ranges ----------------------------------------------------------------------------
    t.push(entry!(sd "range" 1 Range<i32>, [0..3, -5..5], gen []));
    t.push(entry!(sd "range" 1 RangeInclusive<u64>, [1..=u64::MAX], gen []));
    // ---- wrappers --------------------------------------------------------------------------
    t.push(entry!(sd "wrapper" 2 Box<LU>, [Box::new(lu(1))], gen ["LU"], name "LU"));
    t.push(entry!(sd "wrapper" 2 Rc<LU>, [Rc::new(lu(1))], gen ["LU"], name "LU"));
    t.push(entry!(sd "wrapper" 2 Arc<Vec<LU>>, [Arc::new(vec![lu(1)])], gen ["LU"]));
    t.push(entry!(sd "wrapper" 1 Cow<'static, str>, [Cow::Borrowed("b"), Cow::Owned("o".to_string())], gen [], name "string"));
    t.push(entry!(sd "wrapper" 1 Cell<u32>, [Cell::new(5)], gen [], name "number"));
    t.push(entry!(sd "wrapper" 2 RefCell<Option<LU>>, [RefCell::new(Some(lu(1))), RefCell::new(None)], gen ["LU"]));
    t.push(entry!(sd "wrapper" 2 Mutex<LU>, [Mutex::new(lu(4))], gen ["LU"], name "LU"));
    t.push(entry!(sd "wrapper" 1 RwLock<String>, [RwLock::new("r".to_string())], gen [], name "string"));
    t.push(entry!(sd "wrapper-weak" 2 std::sync::Weak<LU>, [std::sync::Weak::new(), { let a = Arc::new(lu(1)); let w = Arc::downgrade(&a); std::mem::forget(a); w }], gen ["LU"]));
    t.push(entry!(sd "wrapper-phantom" 1 PhantomData<i32>, [PhantomData], gen [], name "null"));
    t.push(entry!(sd "wrapper-phantom" 2 PhantomData<LU>, [PhantomData], gen [], name "null"));
    // ---- feature-gated crates --------------------------------------------------------------
    t.push(entry!(sd "chrono" 0 chrono::DateTime<chrono::Utc>, [chrono::DateTime::from_timestamp(1_700_000_000, 5).unwrap()], gen [], name "string"));
    t.push(entry!(sd "chrono" 0 chrono::DateTime<chrono::FixedOffset>, [chrono::DateTime::parse_from_rfc3339("2020-01-02T03:04:05+02:00").unwrap()], gen [], name "string"));
    t.push(entry!(sd "chrono" 0 chrono::NaiveDate, [chrono::NaiveDate::from_ymd_opt(2024, 2, 29).unwrap()], gen [], name "string"));
    t.push(entry!(sd "chrono" 0 chrono::NaiveDateTime, [chrono::NaiveDate::from_ymd_opt(2024, 2, 29).unwrap().and_hms_opt(1, 2, 3).unwrap()], gen [], name "string"));
    t.push(entry!(sd "chrono" 0 chrono::NaiveTime, [chrono::NaiveTime::from_hms_opt(23, 59, 59).unwrap()], gen [], name "string"));
    t.push(entry!(sd "chrono" 0 chrono::Month, [chrono::Month::January, chrono::Month::December], gen [], name "string"));
    t.push(entry!(sd "chrono" 0 chrono::Weekday, [chrono::Weekday::Mon, chrono::Weekday::Sun], gen [], name "string"));
    t.push(entry!(n "chrono" 0 chrono::Duration, gen [], name "string"));
    t.push(entry!(sd "bigdecimal" 0 bigdecimal::BigDecimal, ["123.456".parse().unwrap(), "-1e-30".parse().unwrap()], gen [], name "string"));
    t.push(entry!(sd "uuid" 0 uuid::Uuid, [uuid::Uuid::nil(), uuid::Uuid::from_u128(0x1234_5678_9abc_def0_1234_5678_9abc_def0)], gen [], name "string"));
    t.push(entry!(sd "bson-oid" 0 bson::oid::ObjectId, [bson::oid::ObjectId::from_bytes([1; 12])], gen [], name "string"));
    t.push(entry!(sd "bson-uuid" 0 bson::Uuid, [bson::Uuid::from_bytes([2; 16])], gen [], name "string"));
    t.push(entry!(sd "bytes" 1 bytes::Bytes, [bytes::Bytes::from_static(b"\x00\xffab"), bytes::Bytes::new()], gen [], name "Array<number>"));
    t.push(entry!(sd "bytes" 1 bytes::BytesMut, [bytes::BytesMut::from(&b"xy"[..])], gen [], name "Array<number>"));
    t.push(entry!(sd "url" 0 url::Url, [url::Url::parse("https://example.org/a?b=c#d").unwrap()], gen [], name "string"));
    t.push(entry!(sd "indexmap" 2 indexmap::IndexMap<String, LU>, [[("k".to_string(), lu(1))].into_iter().collect()], gen ["LU"]));
    t.push(entry!(sd "indexmap" 2 indexmap::IndexSet<LK>, [[LK::Kb, LK::Ka].into_iter().collect()], gen ["LK"]));
    t.push(entry!(sd "ordered-float" 0 ordered_float::OrderedFloat<f64>, [ordered_float::OrderedFloat(1.5)], gen [], name "number"));
    t.push(entry!(sd "ordered-float" 0 ordered_float::OrderedFloat<f32>, [ordered_float::OrderedFloat(-2.0f32)], gen [], name "number"));
    t.push(entry!(sd "heapless" 2 heapless::Vec<LU, 4>, [heapless::Vec::from_slice(&[lu(1), lu(2)]).unwrap(), heapless::Vec::new()], gen ["LU"]));
    t.push(entry!(sd "semver" 0 semver::Version, [semver::Version::parse("1.2.3-alpha+build").unwrap()], gen [], name "string"));
    t.push(entry!(sd "smol_str" 0 smol_str::SmolStr, [smol_str::SmolStr::new("smol")], gen [], name "string"));
    t.push(entry!(sd "serde_json" 1 serde_json::Value, [json!(null), json!(1), json!("s"), json!([1, "a", null]), json!({"k": {"n": [true]}})], gen ["JsonValue"]));
    t.push(entry!(sd "serde_json" 0 serde_json::Number, [serde_json::Number::from(7)], gen [], name "number"));
    t.push(entry!(sd "serde_json" 2 serde_json::Map<String, Value>, [{ let mut m = serde_json::Map::new(); m.insert("a".into(), json!([1])); m }], gen ["JsonValue"]));
    t.push(entry!(n "tokio" 2 tokio::sync::Mutex<LU>, gen ["LU"], name "LU"));
    t.push(entry!(n "tokio" 2 tokio::sync::RwLock<Vec<LU>>, gen ["LU"], name "Array<LU>"));
    t.push(entry!(n "tokio" 2 tokio::sync::OnceCell<LU>, gen ["LU"], name "LU"));
    // ---- compositions ----------------------------------------------------------------------
    t.push(entry!(sd "compose" 2 Vec<Option<HashMap<String, LU>>>, [vec![None, Some(hm(vec![("k".to_string(), lu(1))]))]], gen ["LU"]));
    t.push(entry!(sd "compose" 2 HashMap<String, Vec<(LU, Option<LK>)>>, [hm(vec![("k".to_string(), vec![(lu(1), None), (lu(2), Some(LK::Ka))])])], gen ["LK", "LU"]));
    t.push(entry!(sd "compose" 2 Option<Box<[Result<LU, ()>; 2]>>, [Some(Box::new([Ok(lu(1)), Err(())])), None], gen ["LU"]));
    t.push(entry!(sd "compose" 2 Result<Vec<LU>, BTreeMap<u8, LK>>, [Ok(vec![lu(1)]), Err(bm(vec![(1u8, LK::Kb)]))], gen ["LK", "LU"]));
    t.push(entry!(sd "compose" 2 (Range<u8>, RefCell<Vec<LU>>, Cow<'static, str>), [(1..2, RefCell::new(vec![lu(3)]), Cow::Borrowed("c"))], gen ["LU"]));
    t.push(entry!(sd "compose" 2 BTreeMap<LK, Option<chrono::NaiveDate>>, [bm(vec![(LK::Ka, None), (LK::Kb, chrono::NaiveDate::from_ymd_opt(2000, 1, 1))])], gen ["LK"]));
    t.push(entry!(sd "compose" 2 Vec<uuid::Uuid>, [vec![uuid::Uuid::nil()]], gen []));
    t.push(entry!(sd "compose" 2 indexmap::IndexMap<u32, heapless::Vec<Option<LU>, 3>>, [[(1u32, heapless::Vec::from_slice(&[None, Some(lu(1))]).unwrap())].into_iter().collect()], gen ["LU"]));
    // ---- every container once more with a *wrapped* / *nested* user type at each argument position: the type arguments
    //      must still be found through the wrapper (visit_generics recursion of each impl)
    t.push(entry!(sd "nested-arg" 2 Vec<Box<LU>>, [vec![Box::new(lu(1))]], gen ["LU"]));
    t.push(entry!(sd "nested-arg" 2 Vec<Vec<LU>>, [vec![vec![lu(1)]]], gen ["LU"]));
    t.push(entry!(sd "nested-arg" 2 Option<Rc<LU>>, [Some(Rc::new(lu(1))), None], gen ["LU"]));
    t.push(entry!(sd "nested-arg" 2 Option<Option<LK>>, [Some(Some(LK::Ka)), Some(None), None], gen ["LK"]));
    t.push(entry!(sd "nested-arg" 2 HashMap<String, Arc<LU>>, [hm(vec![("k".to_string(), Arc::new(lu(1)))])], gen ["LU"]));
    t.push(entry!(sd "nested-arg" 2 BTreeMap<Box<LK>, u8>, [bm(vec![(Box::new(LK::Ka), 1u8)])], gen ["LK"]));
    t.push(entry!(sd "nested-arg" 2 HashMap<Rc<LK>, Vec<LU>>, [hm(vec![(Rc::new(LK::Kb), vec![lu(2)])])], gen ["LK", "LU"]));
    t.push(entry!(sd "nested-arg" 2 BTreeMap<Cow<'static, LK>, Box<LU>>, [bm(vec![(Cow::Owned(LK::Ka), Box::new(lu(3)))])], gen ["LK", "LU"]));
    t.push(entry!(sd "nested-arg" 2 HashSet<Box<LK>>, [[Box::new(LK::Ka)].into_iter().collect()], gen ["LK"]));
    // element types with a dependency of their own: an inlined container depends on what the inlined element mentions -
    // unless it has no element (`[T; 0]` is `[]`)
    t.push(entry!(sd "inlined-deps" 2 Vec<LW>, [vec![lw(1)]], gen ["LW"]));
    t.push(entry!(sd "inlined-deps" 2 [LW; 2], [[lw(1), lw(2)]], gen ["LW"]));
    t.push(entry!(sd "inlined-deps" 2 [LW; 0], [[]], gen []));
    t.push(entry!(sd "inlined-deps" 2 Option<[LW; 0]>, [Some([]), None], gen []));
    t.push(entry!(sd "inlined-deps" 2 [[LW; 0]; 2], [[[], []]], gen []));
    t.push(entry!(sd "inlined-deps" 2 HashMap<String, Option<LW>>, [hm(vec![("k".to_string(), Some(lw(1)))])], gen ["LW"]));
    t.push(entry!(sd "inlined-deps" 2 Result<Box<LW>, [LW; 0]>, [Ok(Box::new(lw(1))), Err([])], gen ["LW"]));
    t.push(entry!(s "cow-borrowed-form" 2 Cow<'static, LHeader>, [Cow::Borrowed(&L_HEADER), Cow::Owned(ToOwned::to_owned(&L_HEADER))], gen ["LHeader"], name "LHeader"));
    t.push(entry!(s "cow-borrowed-form" 2 Vec<Cow<'static, LHeader>>, [vec![Cow::Borrowed(&L_HEADER)]], gen ["LHeader"], name "Array<LHeader>"));
    t.push(entry!(sd "nested-arg" 2 BTreeSet<Vec<LK>>, [[vec![LK::Ka, LK::Kb]].into_iter().collect()], gen ["LK"]));
    t.push(entry!(sd "nested-arg" 2 (Box<LU>, Cow<'static, LK>), [(Box::new(lu(1)), Cow::Owned(LK::Kb))], gen ["LK", "LU"]));
    t.push(entry!(sd "nested-arg" 2 (u8, Vec<LU>, Option<LK>), [(1, vec![lu(1)], None)], gen ["LK", "LU"]));
    t.push(entry!(sd "nested-arg" 2 [Box<LU>; 2], [[Box::new(lu(1)), Box::new(lu(2))]], gen ["LU"]));
    t.push(entry!(sd "nested-arg" 2 [Vec<LK>; 1], [[vec![LK::Ka]]], gen ["LK"]));
    t.push(entry!(sd "nested-arg" 2 Result<Box<LU>, Rc<LK>>, [Ok(Box::new(lu(1))), Err(Rc::new(LK::Ka))], gen ["LK", "LU"]));
    t.push(entry!(sd "nested-arg" 2 Result<Vec<LU>, Option<LK>>, [Ok(vec![lu(1)]), Err(None)], gen ["LK", "LU"]));
    t.push(entry!(sd "nested-arg" 2 Box<Vec<Box<LU>>>, [Box::new(vec![Box::new(lu(1))])], gen ["LU"]));
    t.push(entry!(sd "nested-arg" 2 Rc<Option<LU>>, [Rc::new(Some(lu(1)))], gen ["LU"]));
    t.push(entry!(sd "nested-arg" 2 Arc<(LU, LK)>, [Arc::new((lu(1), LK::Ka))], gen ["LK", "LU"]));
    t.push(entry!(sd "nested-arg" 2 Cell<Option<u8>>, [Cell::new(Some(1))], gen []));
    t.push(entry!(sd "nested-arg" 2 RefCell<Vec<LU>>, [RefCell::new(vec![lu(1)])], gen ["LU"]));
    t.push(entry!(sd "nested-arg" 2 Mutex<Option<LU>>, [Mutex::new(Some(lu(1)))], gen ["LU"]));
    t.push(entry!(sd "nested-arg" 2 RwLock<Vec<LK>>, [RwLock::new(vec![LK::Ka])], gen ["LK"]));
    t.push(entry!(sd "nested-arg" 2 Cow<'static, [LU]>, [Cow::Owned(vec![lu(1)])], gen ["LU"]));
    t.push(entry!(sd "nested-arg" 2 Range<Box<u8>>, [Box::new(1u8)..Box::new(2u8)], gen []));
    t.push(entry!(sd "nested-arg" 2 indexmap::IndexMap<Box<LK>, Vec<LU>>, [[(Box::new(LK::Ka), vec![lu(1)])].into_iter().collect()], gen ["LK", "LU"]));
    t.push(entry!(sd "nested-arg" 2 indexmap::IndexSet<Box<LK>>, [[Box::new(LK::Ka)].into_iter().collect()], gen ["LK"]));
    t.push(entry!(sd "nested-arg" 2 heapless::Vec<Vec<LU>, 2>, [heapless::Vec::from_slice(&[vec![lu(1)]]).unwrap()], gen ["LU"]));
    t.push(entry!(n "nested-arg" 2 serde_json::Map<String, Vec<LU>>, gen ["LU"]));
    t.push(entry!(n "nested-arg" 2 tokio::sync::Mutex<Vec<LU>>, gen ["LU"]));
    t.push(entry!(n "nested-arg" 2 tokio::sync::OnceCell<Box<LK>>, gen ["LK"]));
    if thorough {
        t.push(entry!(sd "compose3" 3 Vec<Vec<Option<BTreeMap<String, (LU, Vec<LK>)>>>>, [vec![vec![None, Some(bm(vec![("a".to_string(), (lu(1), vec![LK::Ka]))]))], vec![]]], gen ["LK", "LU"]));
        t.push(entry!(sd "compose3" 3 HashMap<u64, Result<Option<Box<LU>>, Vec<[LK; 2]>>>, [hm(vec![(1u64, Ok(None)), (2, Ok(Some(Box::new(lu(1))))), (3, Err(vec![[LK::Ka, LK::Kb]]))])], gen ["LK", "LU"]));
        t.push(entry!(sd "compose3" 3 Option<(Arc<Mutex<Vec<LU>>>, Rc<RefCell<HashSet<LK>>>, Cell<Option<u8>>)>, [None, Some((Arc::new(Mutex::new(vec![lu(1)])), Rc::new(RefCell::new([LK::Ka].into_iter().collect())), Cell::new(Some(1))))], gen ["LK", "LU"]));
        t.push(entry!(sd "compose3" 3 BTreeMap<String, Vec<Range<NonZeroU8>>>, [bm(vec![("r".to_string(), vec![NonZeroU8::new(1).unwrap()..NonZeroU8::MAX])])], gen []));
        t.push(entry!(sd "compose3" 3 [Option<(LU, [LK; 2])>; 3], [[None, Some((lu(1), [LK::Ka, LK::Kb])), None]], gen ["LK", "LU"]));
    }
    t
}

fn env_for(log: &mut Log) -> Env {
    let mut env = Env::new();
    for d in [guarded(LU::decl), guarded(LK::decl), guarded(LW::decl), guarded(LHeader::decl), guarded(LHeaderBuf::decl), guarded(<serde_json::Value as TS>::decl)] {
        match d {
            Ok(text) => match parse::parse_decl(&text) {
                Ok(p) => env.add(p),
                Err(e) => log.emit(json!({"ev": "harness-error", "what": format!("leaf declaration does not parse: {text}: {e}")})),
            },
            Err(p) => log.emit(json!({"ev": "harness-error", "what": format!("leaf decl panicked: {p}")})),
        }
    }
    env
}

fn collect_strings(v: &Value, out: &mut Vec<String>) {
    match v {
        Value::String(s) => out.push(s.clone()),
        Value::Array(a) => a.iter().for_each(|x| collect_strings(x, out)),
        Value::Object(m) => m.values().for_each(|x| collect_strings(x, out)),
        _ => {}
    }
}

fn replace_strings(v: &mut Value, pool: &[String], i: &mut usize) {
    match v {
        Value::String(s) => {
            if !pool.is_empty() {
                *s = pool[*i % pool.len()].clone();
                *i += 1;
            }
        }
        Value::Array(a) => a.iter_mut().for_each(|x| replace_strings(x, pool, i)),
        Value::Object(m) => m.values_mut().for_each(|x| replace_strings(x, pool, i)),
        _ => {}
    }
}

fn collect_index_keys(t: &tsmodel::Ty, out: &mut Vec<tsmodel::Ty>) {
    use tsmodel::Ty::*;
    match t {
        Array(x) => collect_index_keys(x, out),
        Tuple(xs) | Union(xs) | Inter(xs) => xs.iter().for_each(|x| collect_index_keys(x, out)),
        Ref(_, args) => args.iter().for_each(|x| collect_index_keys(x, out)),
        Object(o) => {
            for p in &o.props {
                collect_index_keys(&p.ty, out);
            }
            for i in &o.index {
                out.push(i.key.clone());
                collect_index_keys(&i.val, out);
            }
        }
        _ => {}
    }
}

/// A transparent wrapper is its content in every spelling, the flattened one included.
fn wrapper_flatten(log: &mut Log) {
    macro_rules! same_flattened {
        ($($w:ty => $t:ty),* $(,)?) => {$(
            let a = guarded(|| <$w as TS>::inline_flattened());
            let b = guarded(|| <$t as TS>::inline_flattened());
            let mut fails = vec![];
            if a != b {
                fails.push(json!({"kind": "wrapper-flattened-differs", "reason": format!("inline_flattened() of the wrapper is {a:?}, of its content {b:?}")}));
            }
            log.emit(json!({"ev": "lib", "monitor": "C12", "rust": concat!(stringify!($w), " (flattened)"), "family": "wrapper-flatten", "depth": 1,
                "name": a, "inline": null, "samples": 0, "witnesses": 0, "checked": 1, "generics": [], "fails": fails, "example": null}));
        )*};
    }
    same_flattened!(
        Box<LK> => LK, std::rc::Rc<LK> => LK, std::sync::Arc<LK> => LK, std::borrow::Cow<'static, LK> => LK, std::cell::Cell<LK> => LK,
        std::cell::RefCell<LK> => LK, std::sync::Mutex<LK> => LK, std::sync::RwLock<LK> => LK, &'static LK => LK,
        Box<LU> => LU, std::sync::Arc<Box<LK>> => LK,
    );
}

pub fn c12(args: &Args, log: &mut Log) {
    wrapper_flatten(log);
    let env = env_for(log);
    for e in table(args.thorough()) {
        let mut fails = vec![];
        let mut checked = 0;
        let mut witnesses = 0;
        let name_ty = match &e.name {
            Ok(n) => parse::parse_type(n).map_err(|err| format!("name() does not parse: {n}: {err}")),
            Err(p) => Err(format!("name() panicked: {p}")),
        };
        // inline() may legitimately panic for tuples and ranges ("cannot be inlined" is documented)
        let inline_ty = match &e.inline {
            Ok(n) => Some(parse::parse_type(n).map_err(|err| format!("inline() does not parse: {n}: {err}"))),
            Err(_) => None,
        };
        let mut views = vec![];
        match &name_ty {
            Ok(t) => views.push(("name", t.clone())),
            Err(err) => fails.push(json!({"kind": "unusable-name", "reason": err})),
        }
        match &inline_ty {
            Some(Ok(t)) => views.push(("inline", t.clone())),
            Some(Err(err)) => fails.push(json!({"kind": "unusable-inline", "reason": err})),
            None => {}
        }
        if let (Some(want), Ok(n)) = (e.expect_name, &e.name) {
            checked += 1;
            if n != want {
                fails.push(json!({"kind": "name-differs-from-documented-kind", "reason": format!("name() = {n:?}, documented kind {want:?}")}));
            }
        }
        checked += 1;
        let mut want: Vec<String> = e.expect_generics.iter().map(|s| s.to_string()).collect();
        want.sort();
        if e.generics != want {
            fails.push(json!({"kind": "dependencies", "reason": format!("type arguments reported as dependencies: {:?}, expected {:?}", e.generics, want)}));
        }
        // the two spellings of one type (by name / inlined) describe the same values
        if let (Ok(nt), Some(Ok(it))) = (&name_ty, &inline_ty) {
            for (from, to, a, b) in [("name", "inline", nt, it), ("inline", "name", it, nt)] {
                checked += 1;
                match env.included(a, b, 3, 24) {
                    Ok(None) => {}
                    Ok(Some((w, f))) => fails.push(json!({"kind": "name-and-inline-differ", "value": w, "path": f.path,
                        "reason": format!("a value of {from}() = {:?} is not a value of {to}() = {:?}: {}", e.name.as_ref().ok(), e.inline.as_ref().ok(), f.reason)})),
                    Err(_) => {}
                }
            }
        }
        // the two things the derive asks about an optional field agree: a type that is no Option is its own "inner type"
        // (a `?` is only written for `IS_OPTION`, the `| null` is only dropped by going to `OptionInnerType`), and an
        // Option's inner type is what stands before its `| null`
        if let (Ok(n), Ok(inner)) = (&e.name, &e.option_inner_name) {
            checked += 1;
            let agrees = if e.is_option { n == &format!("{inner} | null") } else { inner == n };
            if !agrees {
                fails.push(json!({"kind": "option-projection-disagrees", "reason": format!("IS_OPTION = {}, name() = {n:?}, OptionInnerType::name() = {inner:?}", e.is_option)}));
            }
        }
        // the inlined spelling of a library type inlines its arguments too: it names no user type (whoever inlines it does
        // not learn about that type - `visit_dependencies` lists what the *inlined* arguments depend on, not the arguments)
        if let Some(Ok(it)) = &inline_ty {
            checked += 1;
            let mut free = std::collections::BTreeSet::new();
            it.free_names(&std::collections::BTreeSet::new(), &mut free);
            let named: Vec<&String> = free.iter().filter(|n| ["LU", "LK", "LW"].contains(&n.as_str()) && !(n.as_str() == "LU" && e.family == "inlined-deps")).collect();
            if !named.is_empty() {
                fails.push(json!({"kind": "inline-names-an-argument", "reason": format!("inline() = {:?} refers to {named:?} by name", e.inline.as_ref().ok())}));
            }
            // ... and `dependencies()` is exactly what the inlined spelling mentions
            checked += 1;
            let mentioned: Vec<String> = free.iter().filter(|n| ["LU", "LK", "LW"].contains(&n.as_str())).cloned().collect();
            let listed: Vec<String> = e.deps.iter().filter(|n| ["LU", "LK", "LW"].contains(&n.as_str())).cloned().collect();
            if mentioned != listed {
                fails.push(json!({"kind": "inline-dependencies", "reason": format!("inline() = {:?} mentions {mentioned:?}, dependencies() lists {listed:?}", e.inline.as_ref().ok())}));
            }
        }
        // the key type of a keyed object must be something TypeScript can index with (string / number / literals of those):
        // `{ [key in bigint]?: V }` or `{ [key in boolean]?: V }` is rejected by the TypeScript compiler
        if let Ok(nt) = &name_ty {
            let mut keys = vec![];
            collect_index_keys(nt, &mut keys);
            for k in keys {
                checked += 1;
                match env.alts(&k) {
                    Ok(shapes) => {
                        let bad: Vec<String> = shapes
                            .iter()
                            .filter(|s| !matches!(s, tsmodel::Shape::Str | tsmodel::Shape::Number | tsmodel::Shape::LitStr(_) | tsmodel::Shape::LitNum(_) | tsmodel::Shape::Any))
                            .map(|s| format!("{s:?}").chars().take(24).collect())
                            .collect();
                        if !bad.is_empty() {
                            fails.push(json!({"kind": "index-key-not-a-property-key",
                                "reason": format!("a keyed object is indexed by a type TypeScript cannot use as a property key: {bad:?}")}));
                        }
                    }
                    Err(_) => {}
                }
            }
        }
        // arrays up to the documented limit are tuples of exactly that length, longer ones plain arrays
        if e.family == "array" {
            if let Some(n) = e.rust.rsplit(';').next().and_then(|x| x.trim().trim_end_matches(']').trim().parse::<usize>().ok()) {
                for (label, ty) in &views {
                    checked += 1;
                    let ok = match ty {
                        tsmodel::Ty::Tuple(items) => n <= 64 && items.len() == n,
                        tsmodel::Ty::Array(_) => n > 64,
                        tsmodel::Ty::Ref(name, args) if name == "Array" && args.len() == 1 => n > 64,
                        _ => false,
                    };
                    if !ok {
                        fails.push(json!({"kind": "array-length", "against": label,
                            "reason": format!("{label}() of an array of {n} elements is not {}", if n <= 64 { format!("a tuple of {n} entries") } else { "an array".to_string() })}));
                    }
                }
            }
        }
        let mut pool = vec![];
        for s in &e.samples {
            match s {
                Err(err) => fails.push(json!({"kind": "harness-sample-not-serializable", "reason": err})),
                Ok(v) => {
                    collect_strings(v, &mut pool);
                    for (label, ty) in &views {
                        checked += 1;
                        match env.member(v, ty) {
                            Verdict::Ok => {}
                            Verdict::Fail(f) => fails.push(json!({"kind": "member", "against": label, "value": v, "path": f.path, "reason": f.reason})),
                            Verdict::Inconclusive(r) => fails.push(json!({"kind": "inconclusive", "against": label, "reason": r})),
                        }
                    }
                }
            }
        }
        // reverse direction: inhabitants of the declared type deserialize
        if let (Some(rt), Ok(ty)) = (e.roundtrip, &name_ty) {
            // only where serde round-trips its own output
            let own_ok = e.samples.iter().all(|s| s.as_ref().map_or(false, |v| rt(&v.to_string()).is_ok()));
            if own_ok {
                if let Ok(ws) = env.witnesses(ty, 3, 60) {
                    let parsed_strings = !matches!(e.family, "prim" | "option" | "seq" | "set" | "map" | "tuple" | "wrapper" | "compose" | "compose3" | "result" | "array" | "range");
                    let mut k = 0usize;
                    for mut w in ws {
                        if parsed_strings || e.rust.contains("chrono") || e.rust.contains("Uuid") || e.rust.contains("uuid") {
                            replace_strings(&mut w, &pool, &mut k);
                        }
                        witnesses += 1;
                        checked += 1;
                        match guarded(|| rt(&w.to_string())) {
                            Ok(Ok(back)) => {
                                if let Verdict::Fail(f) = env.member(&back, ty) {
                                    fails.push(json!({"kind": "reserialized-not-member", "witness": w, "value": back, "path": f.path, "reason": f.reason}));
                                }
                            }
                            Ok(Err(err)) => fails.push(json!({"kind": "witness-rejected", "witness": w, "reason": err})),
                            Err(p) => fails.push(json!({"kind": "deserialize-panic", "witness": w, "reason": p})),
                        }
                    }
                }
            }
        }
        fails.truncate(8);
        log.emit(json!({"ev": "lib", "monitor": "C12", "rust": e.rust, "family": e.family, "depth": e.depth,
            "name": e.name, "inline": e.inline.ok(), "samples": e.samples.len(), "witnesses": witnesses, "checked": checked,
            "generics": e.generics, "fails": fails,
            "example": e.samples.first().and_then(|s| s.as_ref().ok()).cloned()}));
    }
}
