//! C14: inline, flatten and `as` change presentation, never meaning.
//! Emits, per registered type, what is needed to compare presentations; groups are formed by the driver
//! (`--groups file`: JSON list of {id, members: {role: entry id}, ..}).

use std::collections::HashMap;

use serde_json::{json, Value};
use tsmodel::{parse, Env, Ty};

use super::build_env;
use crate::{guarded, Args, Log, TypeEntry};

fn show(r: Result<Option<(Value, tsmodel::Fail)>, String>) -> Value {
    match r {
        Ok(None) => json!("included"),
        Ok(Some((w, f))) => json!({"counter_witness": w, "path": f.path, "reason": f.reason}),
        Err(s) => json!({"inconclusive": s}),
    }
}

fn equiv(env: &Env, a: &Ty, b: &Ty) -> Value {
    let na = env.witnesses(a, 3, 80).map(|w| w.len()).unwrap_or(0);
    let nb = env.witnesses(b, 3, 80).map(|w| w.len()).unwrap_or(0);
    json!({"a_in_b": show(env.included(a, b, 3, 80)), "b_in_a": show(env.included(b, a, 3, 80)), "witnesses": [na, nb]})
}

pub fn c14(args: &Args, reg: &[TypeEntry], log: &mut Log) {
    let groups: Vec<Value> = serde_json::from_str(&std::fs::read_to_string(args.get("groups").expect("--groups")).expect("groups file")).expect("groups json");
    let by_id: HashMap<&str, &TypeEntry> = reg.iter().map(|e| (e.id.as_str(), e)).collect();
    // (1) for every registered type: inline() is the body of decl() instantiated at the type's arguments
    for e in reg {
        log.start(&e.id, &e.rust);
        let inline = guarded(e.inline);
        let name = guarded(e.name);
        if guarded(e.output_path).ok().flatten().is_none() {
            continue;
        }
        let info = build_env(e);
        let (Ok(inl), Ok(n)) = (&inline, &name) else {
            log.emit(json!({"ev": "self", "id": e.id, "rust": e.rust, "outcome": "panic", "inline": inline, "name": name}));
            continue;
        };
        match (parse::parse_type(inl), parse::parse_type(n)) {
            (Ok(it), Ok(nt)) => {
                let eq = equiv(&info.env, &it, &nt);
                log.emit(json!({"ev": "self", "id": e.id, "rust": e.rust, "outcome": "ok", "equiv": eq, "inline": inl, "name": n,
                    "problems": info.problems}));
            }
            (a, b) => log.emit(json!({"ev": "self", "id": e.id, "rust": e.rust, "outcome": "unparseable", "inline": inl, "name": n,
                "errors": [a.err(), b.err()], "problems": info.problems})),
        }
    }
    // (2) presentation groups
    for g in &groups {
        let gid = g["id"].as_str().unwrap_or("");
        let members = g["members"].as_object().cloned().unwrap_or_default();
        let mut env = Env::new();
        let mut problems = vec![];
        let mut bodies: HashMap<String, (Ty, String)> = HashMap::new();
        let mut texts: HashMap<String, Value> = HashMap::new();
        for (role, eid) in &members {
            let Some(e) = by_id.get(eid.as_str().unwrap_or("")) else { continue };
            let info = build_env(e);
            for (k, d) in &info.problems {
                problems.push(json!({"role": role, "kind": k, "detail": d}));
            }
            for (n, d) in info.env.decls {
                env.decls.insert(n, d);
            }
            let decl = guarded(e.decl);
            texts.insert(role.clone(), json!({"decl": decl, "rust": e.rust}));
            if let Ok(t) = &decl {
                if let Ok(d) = parse::parse_decl(t) {
                    if g["shape"] == "tagged-only" {
                        // the tag value is the parent's own name: one spelling for every member of the group
                        if let Ok(d2) = parse::parse_decl(&t.replace(&format!("\"{}\"", d.name), "\"Parent\"")) {
                            bodies.insert(role.clone(), (d2.body.clone(), "Parent".to_string()));
                            continue;
                        }
                    }
                    bodies.insert(role.clone(), (d.body.clone(), d.name.clone()));
                }
            }
        }
        let fentry = by_id.get(format!("F:{gid}").as_str());
        let fname = fentry.and_then(|e| guarded(e.name).ok());
        let finline = fentry.and_then(|e| guarded(e.inline).ok());
        if let Some(e) = fentry {
            for (n, d) in build_env(e).env.decls {
                env.decls.insert(n, d);
            }
        }
        let mut checks = serde_json::Map::new();
        if let (Some((a, _)), Some((b, _))) = (bodies.get("name"), bodies.get("inline")) {
            checks.insert("name~inline".into(), equiv(&env, a, b));
        }
        // the field of a newtype variant, by name and inlined (the tag of an internally tagged enum is intersected with either spelling)
        if let (Some((a, _)), Some((b, _))) = (bodies.get("nv-name"), bodies.get("nv-inline-twin")) {
            checks.insert("nv-name~nv-inline".into(), equiv(&env, a, b));
        }
        for onull in ["opt", "nullable"] {
            if let (Some((a, _)), Some((b, _))) = (bodies.get(&format!("name-optional-{onull}")), bodies.get(&format!("inline-optional-{onull}"))) {
                checks.insert(format!("name~inline (optional = {onull})"), equiv(&env, a, b));
            }
        }
        if let (Some((a, parent)), Some(fname)) = (bodies.get("flat"), &fname) {
            let shape = g["shape"].as_str().unwrap_or("");
            let expected_src = if shape == "named" {
                format!("{{ own: number, }} & ({fname})")
            } else if shape == "tagged-only" {
                format!("{{ \"t\": \"{parent}\" }} & ({fname})")
            } else {
                format!("{{ \"Va\": {{ own: number, }} & ({fname}) }} | \"Vb\"")
            };
            match parse::parse_type(&expected_src) {
                Ok(exp) => {
                    checks.insert("flat~merge".into(), equiv(&env, a, &exp));
                }
                Err(err) => problems.push(json!({"role": "flat", "kind": "harness-expected-type-unparseable", "detail": format!("{expected_src}: {err}")})),
            }
        }
        // `as = "F"` gives exactly the binding the item would have if its type were F
        if let (Some(a), Some(b)) = (texts.get("as"), texts.get("name")) {
            if let (Some((_, an)), Some((_, bn))) = (bodies.get("as"), bodies.get("name")) {
                let ta = a["decl"]["Ok"].as_str().unwrap_or("").replacen(&format!("type {an} "), "type X ", 1);
                let tb = b["decl"]["Ok"].as_str().unwrap_or("").replacen(&format!("type {bn} "), "type X ", 1);
                checks.insert("as=twin".into(), json!({"equal": ta == tb, "as": ta, "twin": tb}));
            }
        }
        for (role, twin) in [("variant-as", "variant-twin"), ("variant-as-struct", "variant-twin"), ("variant-as-unit", "variant-twin"), ("variant-as-skipped", "variant-twin"), ("as-inline", "inline"), ("nv-as-inline", "nv-inline-twin")] {
            if let (Some(a), Some(b)) = (texts.get(role), texts.get(twin)) {
                let renamed = |v: &Value| -> Option<String> {
                    let t = v["decl"]["Ok"].as_str()?;
                    let d = parse::parse_decl(t).ok()?;
                    Some(t.replacen(&format!("type {} ", d.name), "type X ", 1))
                };
                if let (Some(ta), Some(tb)) = (renamed(a), renamed(b)) {
                    checks.insert(format!("{role}=twin"), json!({"equal": ta == tb, "as": ta, "twin": tb}));
                }
            }
        }
        for role in ["container-as", "container-as-enum", "container-as-empty-enum"] {
            if let (Some((a, _)), Some(fi)) = (bodies.get(role), &finline) {
                match parse::parse_type(fi) {
                    Ok(ft) => {
                        checks.insert(format!("{role}~F"), equiv(&env, a, &ft));
                    }
                    Err(err) => problems.push(json!({"role": role, "kind": "unparseable-type", "detail": format!("{fi}: {err}")})),
                }
            }
        }
        if let (Some((a, _)), Some((b, _))) = (bodies.get("flat"), bodies.get("flat-of-container-as")) {
            checks.insert("flat~flat-of-container-as".into(), equiv(&env, a, b));
        } else if members.contains_key("flat-of-container-as") && bodies.contains_key("flat") {
            // the declaration could not be produced at all (panic)
            problems.push(json!({"role": "flat-of-container-as", "kind": "no-declaration", "detail": texts.get("flat-of-container-as").cloned().unwrap_or(Value::Null).to_string().chars().take(300).collect::<String>()}));
        }
        if let (Some((a, _)), Some((b, _))) = (bodies.get("flat"), bodies.get("flat-boxed")) {
            checks.insert("flat~flat-boxed".into(), equiv(&env, a, b));
        }
        if let (Some((a, _)), Some((b, _))) = (bodies.get("flat-of-inline"), bodies.get("flat-of-name")) {
            checks.insert("flat-of-inline~flat-of-name".into(), equiv(&env, a, b));
        }
        if let (Some((a, _)), Some(fname)) = (bodies.get("inline-of-flat"), &fname) {
            if let Ok(exp) = parse::parse_type(&format!("{{ outer: boolean, g: {{ own: number, }} & ({fname}), }}")) {
                checks.insert("inline-of-flat~merge".into(), equiv(&env, a, &exp));
            }
        }
        log.emit(json!({"ev": "group", "monitor": "C14", "id": gid, "ftype": g["ftype"], "shape": g["shape"], "kind": g["kind"],
            "checks": checks, "problems": problems, "texts": texts, "fname": fname}));
    }
}
