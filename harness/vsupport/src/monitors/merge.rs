//! C05: several types in one file – order-independent, idempotent, lossless merge.
//!
//! (a) pure fold of the real `merge` over permutations of single-type file texts,
//! (b) real sequential exports in every order (and every prefix),
//! (c) concurrent exports under seeded schedule perturbation, with an event-log invariant.
//!
//! Reference composition is built from swc-parsed parts, not with ts-rs's own text splitting.

use std::{
    cell::Cell,
    collections::{BTreeMap, BTreeSet, HashMap, HashSet},
    path::{Path, PathBuf},
    sync::{Arc, Barrier, Mutex},
    time::Duration,
};

use serde_json::{json, Value};
use ts_rs::verif;

use super::fsutil::{clear_dir, snapshot};
use crate::{guarded, rng::Rng, Args, Log, TypeEntry};

#[derive(Clone, Debug)]
pub struct Part {
    pub imports: Vec<(String, Vec<String>)>,
    pub token: String,
    pub decl_text: String,
    pub text: String,
    pub label: String,
}

/// Split a single-type file text into its parts using swc's spans.
pub fn part_of(label: &str, text: &str) -> Result<Part, String> {
    let m = tsmodel::parse::parse_module(text)?;
    let mut imports = vec![];
    for i in m.imports() {
        imports.push((i.spec.clone(), i.names.clone()));
    }
    let decls: Vec<_> = m.decls().collect();
    if decls.len() != 1 {
        return Err(format!("expected one declaration, found {}", decls.len()));
    }
    let d = decls[0];
    let start = d.doc_start.unwrap_or(d.span.0);
    let decl_text = text[start..d.span.1].to_string();
    let after = &text[d.span.0..];
    let token = after
        .strip_prefix("export type ")
        .ok_or("declaration does not start with `export type `")?
        .split_whitespace()
        .next()
        .unwrap_or("")
        .to_string();
    // "in name order": the name is the identifier, without the parameter list that follows it in the text
    let token = token.split('<').next().unwrap_or("").to_string();
    Ok(Part {
        imports,
        token,
        decl_text,
        text: text.to_string(),
        label: label.to_string(),
    })
}

/// The file that must result from exporting exactly `parts` into one file.
pub fn compose(parts: &[&Part]) -> String {
    let mut imports: BTreeMap<&str, BTreeSet<&str>> = BTreeMap::new();
    for p in parts {
        for (spec, names) in &p.imports {
            let e = imports.entry(spec.as_str()).or_default();
            for n in names {
                e.insert(n.as_str());
            }
        }
    }
    let mut out = String::from(verif::NOTE);
    for (spec, names) in imports {
        let names: Vec<&str> = names.into_iter().collect();
        out.push_str(&format!("import type {{ {} }} from \"{}\";\n", names.join(", "), spec));
    }
    let mut sorted: Vec<&&Part> = parts.iter().collect();
    sorted.sort_by(|a, b| a.token.as_bytes().cmp(b.token.as_bytes()));
    for p in sorted {
        out.push('\n');
        out.push_str(&p.decl_text);
        out.push('\n');
    }
    out
}

fn fold(order: &[&Part]) -> Result<String, String> {
    let mut file = order[0].text.clone();
    for p in &order[1..] {
        let merged = guarded(|| verif::merge(file.clone(), p.text.clone()))?;
        file = format!("{}{}", verif::NOTE, merged);
    }
    Ok(file)
}

fn permutations(n: usize) -> Vec<Vec<usize>> {
    fn go(cur: &mut Vec<usize>, used: &mut Vec<bool>, n: usize, out: &mut Vec<Vec<usize>>) {
        if cur.len() == n {
            out.push(cur.clone());
            return;
        }
        for i in 0..n {
            if !used[i] {
                used[i] = true;
                cur.push(i);
                go(cur, used, n, out);
                cur.pop();
                used[i] = false;
            }
        }
    }
    let mut out = vec![];
    go(&mut vec![], &mut vec![false; n], n, &mut out);
    out
}

// ------------------------------------------------------------------------------------------
// synthetic single-type files (shapes ts-rs itself produces)

const NAMES: &[&str] = &[
    "A", "Ab", "Abc", "A1", "A_", "a", "Zed", "Foo", "Foo<T>", "FooBar", "Foo1<T, U = string>", "B", "b", "Ünï", "_x", "Z9",
];
const SPECS: &[&str] = &["./Dep", "./dep", "../up/Dep", "./nested/Other", "./a.b"];
const IMPORT_NAMES: &[&str] = &["Dep", "Other", "A", "Zed", "Dep2", "a"];
const DOC_LINES: &[&str] = &[
    " plain text",
    " export type Fake = number;",
    "",
    " * starts with a star",
    " ends with colon:",
    " import type { X } from \"./x\";",
];

pub fn synthetic(rng: &mut Rng, name: &str, class: &mut Vec<&'static str>) -> String {
    let mut t = String::from(verif::NOTE);
    // imports: sorted by specifier, names sorted – as generate_imports prints them
    let mut specs: BTreeMap<&str, BTreeSet<&str>> = BTreeMap::new();
    for _ in 0..rng.below(4) {
        let s = *rng.choose(SPECS);
        let e = specs.entry(s).or_default();
        for _ in 0..1 + rng.below(3) {
            e.insert(*rng.choose(IMPORT_NAMES));
        }
    }
    for (s, names) in &specs {
        let names: Vec<&str> = names.iter().copied().collect();
        t.push_str(&format!("import type {{ {} }} from \"{}\";\n", names.join(", "), s));
    }
    t.push('\n');
    match rng.below(5) {
        0 | 1 => {}
        2 | 3 => {
            // `///` style docs
            t.push_str("/**\n");
            let n = 1 + rng.below(3);
            for i in 0..n {
                t.push_str(" *");
                t.push_str(*rng.choose(DOC_LINES));
                if i + 1 < n {
                    t.push('\n');
                }
            }
            t.push_str("\n */\n");
            class.push("line-docs");
        }
        _ => {
            // `/** .. */` block doc kept verbatim
            if rng.chance(1, 8) {
                t.push_str("/** block\n\n with an empty line */\n");
                class.push("blank-line-in-doc");
            } else {
                t.push_str("/** block\n * second line */\n");
                class.push("block-docs");
            }
        }
    }
    let pick = rng.below(41);
    let body = match if pick == 40 { 5 } else { pick % 5 } {
        0 => "number".to_string(),
        1 => "{ a: number, b: string, }".to_string(),
        2 => "{ \n/**\n * field doc\n */\na: number, b: Dep, }".to_string(),
        3 => "\"X\" | { \"Y\": { f: Other, } }".to_string(),
        4 => "{ [key in string]?: Array<Dep> }".to_string(),
        _ => {
            class.push("export-type-in-body");
            "{ \"export type q\": number, }".to_string()
        }
    };
    t.push_str(&format!("export type {name} = {body};\n"));
    t
}

// ------------------------------------------------------------------------------------------

struct Stats {
    histories: u64,
    evaluations: u64,
    sets: u64,
    fails: u64,
}

fn check_set(parts: &[Part], class: &[&str], origin: &str, exhaustive: bool, rng: &mut Rng, log: &mut Log, st: &mut Stats) {
    let n = parts.len();
    st.sets += 1;
    let perms: Vec<Vec<usize>> = if exhaustive {
        permutations(n)
    } else {
        (0..60)
            .map(|_| {
                let mut p: Vec<usize> = (0..n).collect();
                rng.shuffle(&mut p);
                p
            })
            .collect()
    };
    let mut class: Vec<&str> = class.to_vec();
    class.sort();
    class.dedup();
    let mut reported = HashSet::new();
    let mut first_full: Option<(Vec<usize>, String)> = None;
    for perm in &perms {
        st.histories += 1;
        // every prefix of the order is a state the file passes through
        for k in 1..=n {
            let order: Vec<&Part> = perm[..k].iter().map(|&i| &parts[i]).collect();
            st.evaluations += 1;
            let expected = compose(&order);
            let got = fold(&order);
            let problem = match &got {
                Err(p) => Some(("merge-panic", format!("merge panicked: {p}"))),
                Ok(g) if g != &expected => Some(("differs-from-reference", "merged text differs from the reference composition".to_string())),
                _ => None,
            };
            if k == n {
                if let Ok(g) = &got {
                    match &first_full {
                        None => first_full = Some((perm.clone(), g.clone())),
                        Some((p0, g0)) if g0 != g => {
                            if reported.insert("order-dependent") {
                                st.fails += 1;
                                log.emit(json!({"ev": "fail", "monitor": "C05", "part": "fold", "kind": "order-dependent", "origin": origin,
                                    "class": class, "labels": parts.iter().map(|p| p.label.clone()).collect::<Vec<_>>(),
                                    "order_a": p0, "order_b": perm, "result_a": g0, "result_b": g,
                                    "inputs": parts.iter().map(|p| p.text.clone()).collect::<Vec<_>>()}));
                            }
                        }
                        _ => {}
                    }
                }
            }
            if let Some((kind, what)) = problem {
                if reported.insert(kind) {
                    st.fails += 1;
                    log.emit(json!({"ev": "fail", "monitor": "C05", "part": "fold", "kind": kind, "origin": origin, "class": class,
                        "labels": parts.iter().map(|p| p.label.clone()).collect::<Vec<_>>(), "what": what,
                        "order": perm[..k], "expected": expected, "got": got.unwrap_or_else(|e| e),
                        "inputs": order.iter().map(|p| p.text.clone()).collect::<Vec<_>>()}));
                }
            }
        }
    }
}

/// Registry types grouped by the file they are exported to (only files shared by >= 2 types). Several instantiations of one
/// generic type are one member of the group (the first one listed); the others are its `alternates`.
pub fn shared_files(reg: &[TypeEntry]) -> Vec<(String, Vec<usize>)> {
    let mut by: BTreeMap<String, Vec<usize>> = BTreeMap::new();
    let mut seen: HashSet<(String, String)> = HashSet::new();
    for (i, e) in reg.iter().enumerate() {
        if let Some(p) = (e.output_path)() {
            // two spellings of one path are one file
            let norm = super::fsutil::norm_rel("", &p.to_string_lossy()).unwrap_or_else(|| p.to_string_lossy().to_string());
            if seen.insert((norm.clone(), (e.ident)())) {
                by.entry(norm).or_default().push(i);
            }
        }
    }
    by.into_iter().filter(|(_, v)| v.len() >= 2).collect()
}

/// For every group member: the other registry entries that are instantiations of the same generic type (same file, same
/// identifier). Whichever of them is exported, the file must come out the same.
pub fn alternates(reg: &[TypeEntry]) -> HashMap<usize, Vec<usize>> {
    let mut first: HashMap<(String, String), usize> = HashMap::new();
    let mut alts: HashMap<usize, Vec<usize>> = HashMap::new();
    for (i, e) in reg.iter().enumerate() {
        if let Some(p) = (e.output_path)() {
            let norm = super::fsutil::norm_rel("", &p.to_string_lossy()).unwrap_or_else(|| p.to_string_lossy().to_string());
            match first.get(&(norm.clone(), (e.ident)())) {
                Some(&f) => alts.entry(f).or_default().push(i),
                None => {
                    first.insert((norm, (e.ident)()), i);
                }
            }
        }
    }
    alts
}

/// the member itself or one of its alternates, chosen by `salt`
fn pick<'a>(reg: &'a [TypeEntry], alts: &HashMap<usize, Vec<usize>>, i: usize, salt: usize) -> &'a TypeEntry {
    match alts.get(&i) {
        Some(a) => match salt % (a.len() + 1) {
            0 => &reg[i],
            k => &reg[a[k - 1]],
        },
        None => &reg[i],
    }
}

fn class_of_group(reg: &[TypeEntry], group: &[usize]) -> Vec<&'static str> {
    let mut c = vec![];
    for &i in group {
        if let Some(d) = reg[i].docs {
            if d.contains("\n\n") {
                c.push("blank-line-in-doc");
            }
        }
    }
    c
}

pub fn c05(args: &Args, reg: &[TypeEntry], log: &mut Log) {
    let mut rng = Rng::new(args.seed);
    let mut st = Stats { histories: 0, evaluations: 0, sets: 0, fails: 0 };
    let shard = args.num("shard", 0);
    let shards = args.num("shards", 1);

    // ---- (a) pure fold ---------------------------------------------------------------------
    let groups = shared_files(reg);
    // `--only concurrent [--runs N]`: just part (c), sized by the caller (the Miri supplement)
    let only_concurrent = args.get("only") == Some("concurrent");
    if only_concurrent {
        let root = args.scratch.join(format!("c05-{shard}"));
        std::fs::create_dir_all(&root).unwrap();
        let out = root.join("out");
        std::env::set_var("TS_RS_EXPORT_DIR", &out);
        concurrent(args, reg, &groups, &root, &out, args.num("runs", 4), shard, log);
        verif::set_probe(None);
        clear_dir(&root);
        let _ = std::fs::remove_dir_all(&root);
        return;
    }
    if args.get("only") == Some("orders") {
        orders_only(args, reg, &groups, shard, shards, log);
        return;
    }
    let alts = alternates(reg);
    if shard == 0 {
        // the text written for a generic type does not depend on the instantiation that happens to be exported
        for (&i, others) in &alts {
            let own = guarded(|| (reg[i].export_to_string)());
            for &o in others {
                st.evaluations += 1;
                let other = guarded(|| (reg[o].export_to_string)());
                if own != other {
                    st.fails += 1;
                    log.emit(json!({"ev": "fail", "monitor": "C05", "part": "fold", "kind": "file-text-depends-on-the-instantiation", "class": [],
                        "origin": format!("{:?}", (reg[i].output_path)()), "what": format!("{} and {} are written as different files", reg[i].rust, reg[o].rust),
                        "expected": format!("{own:?}"), "got": format!("{other:?}")}));
                }
            }
        }
        for (file, group) in &groups {
            let mut parts = vec![];
            for &i in group {
                match guarded(|| (reg[i].export_to_string)()) {
                    Ok(Ok(t)) => match part_of(&reg[i].id, &t) {
                        Ok(p) => parts.push(p),
                        Err(e) => log.emit(json!({"ev": "fail", "monitor": "C05", "part": "fold", "kind": "unparseable-single-file",
                            "class": class_of_group(reg, group), "origin": file, "what": e, "text": t})),
                    },
                    other => log.emit(json!({"ev": "fail", "monitor": "C05", "part": "fold", "kind": "export_to_string-failed",
                        "class": [], "origin": file, "what": format!("{other:?}")})),
                }
            }
            if parts.len() >= 2 {
                let class = class_of_group(reg, group);
                check_set(&parts, &class, &format!("real:{file}"), parts.len() <= 6, &mut rng, log, &mut st);
            }
        }
    }
    let n_sets = if args.thorough() { 40_000 } else { 3_000 } / shards.max(1);
    let mut srng = Rng::new(args.seed.wrapping_mul(7919).wrapping_add(shard));
    let mut class_hist: BTreeMap<String, u64> = BTreeMap::new();
    for _ in 0..n_sets {
        let span = if srng.chance(1, 6) { 6 } else { 4 };
        let n = 2 + srng.below(span);
        let mut names: Vec<&str> = NAMES.to_vec();
        srng.shuffle(&mut names);
        // identifiers must be distinct within a file (`Foo` and `Foo<T>` are the same identifier)
        let mut seen = HashSet::new();
        names.retain(|n| seen.insert(n.split('<').next().unwrap().to_string()));
        names.truncate(n);
        let mut class = vec![];
        let mut parts = vec![];
        let mut bad = false;
        for name in &names {
            let text = synthetic(&mut srng, name, &mut class);
            match part_of(name, &text) {
                Ok(p) => parts.push(p),
                Err(e) => {
                    bad = true;
                    log.emit(json!({"ev": "harness-error", "what": format!("synthetic text does not parse: {e}"), "text": text}));
                }
            }
        }
        if bad {
            continue;
        }
        for c in &class {
            *class_hist.entry(c.to_string()).or_default() += 1;
        }
        let exhaustive = parts.len() <= 5;
        check_set(&parts, &class, "synthetic", exhaustive, &mut srng, log, &mut st);
    }
    log.emit(json!({"ev": "summary", "monitor": "C05", "part": "fold", "sets": st.sets, "histories": st.histories,
        "evaluations": st.evaluations, "fails": st.fails, "class_hist": class_hist}));

    // ---- (b) real sequential exports -------------------------------------------------------
    let root = args.scratch.join(format!("c05-{shard}"));
    std::fs::create_dir_all(&root).unwrap();
    let out = root.join("out");
    std::env::set_var("TS_RS_EXPORT_DIR", &out);
    let mut seq_hist = 0u64;
    let mut seq_evals = 0u64;
    let mut seq_fails = 0u64;
    for (gi, (file, group)) in groups.iter().enumerate() {
        let class = class_of_group(reg, group);
        let parts: HashMap<usize, Part> = group
            .iter()
            .filter_map(|&i| {
                guarded(|| (reg[i].export_to_string)())
                    .ok()
                    .and_then(|r| r.ok())
                    .and_then(|t| part_of(&reg[i].id, &t).ok())
                    .map(|p| (i, p))
            })
            .collect();
        if parts.len() != group.len() {
            continue;
        }
        let perms = permutations(group.len());
        for (pi, perm) in perms.iter().enumerate() {
            if (pi as u64 + gi as u64) % shards.max(1) != shard {
                continue;
            }
            seq_hist += 1;
            clear_dir(&root);
            verif::reset_registry();
            let target = out.join(file);
            let mut reported = false;
            for k in 0..perm.len() {
                let i = group[perm[k]];
                let r = guarded(|| (pick(reg, &alts, i, pi + k).export)());
                seq_evals += 1;
                let expect_parts: Vec<&Part> = perm[..=k].iter().map(|&j| &parts[&group[j]]).collect();
                let expected = compose(&expect_parts);
                let got = std::fs::read_to_string(&target).unwrap_or_else(|e| format!("<unreadable: {e}>"));
                let ok = matches!(r, Ok(Ok(()))) && got == expected;
                if !ok && !reported {
                    reported = true;
                    seq_fails += 1;
                    log.emit(json!({"ev": "fail", "monitor": "C05", "part": "sequential", "kind": "differs-from-reference", "class": class,
                        "origin": file, "order": perm[..=k].iter().map(|&j| reg[group[j]].id.clone()).collect::<Vec<_>>(),
                        "result": format!("{r:?}"), "expected": expected, "got": got}));
                }
            }
            // "the union of the needed imports": nothing declared in the file is imported into it
            if !reported {
                if let Ok(m) = tsmodel::parse::parse_module(&std::fs::read_to_string(&target).unwrap_or_default()) {
                    let declared: HashSet<String> = m.decls().map(|d| d.name.clone()).collect();
                    let own: Vec<String> = m.imports().flat_map(|i| i.names.clone()).filter(|n| declared.contains(n)).collect();
                    seq_evals += 1;
                    // "every declaration exactly once"
                    if m.decls().count() != declared.len() {
                        reported = true;
                        seq_fails += 1;
                        log.emit(json!({"ev": "fail", "monitor": "C05", "part": "sequential", "kind": "declared-more-than-once", "class": class,
                            "origin": file, "order": perm.iter().map(|&j| reg[group[j]].id.clone()).collect::<Vec<_>>(),
                            "what": format!("{:?}", m.decls().map(|d| d.name.clone()).collect::<Vec<_>>()), "got": std::fs::read_to_string(&target).unwrap_or_default()}));
                    }
                    if !own.is_empty() {
                        reported = true;
                        seq_fails += 1;
                        log.emit(json!({"ev": "fail", "monitor": "C05", "part": "sequential", "kind": "imports-what-the-file-declares", "class": class,
                            "origin": file, "order": perm.iter().map(|&j| reg[group[j]].id.clone()).collect::<Vec<_>>(),
                            "what": format!("{own:?} imported although declared in the file"), "got": std::fs::read_to_string(&target).unwrap_or_default()}));
                    }
                }
            }
            // exporting again changes nothing
            let before = snapshot(&root);
            for &j in perm {
                let _ = guarded(|| (pick(reg, &alts, group[j], pi + j + 1).export)());
            }
            seq_evals += 1;
            let after = snapshot(&root);
            if before != after && !reported {
                seq_fails += 1;
                log.emit(json!({"ev": "fail", "monitor": "C05", "part": "sequential", "kind": "re-export-changed-the-file", "class": class,
                    "origin": file, "order": perm.iter().map(|&j| reg[group[j]].id.clone()).collect::<Vec<_>>(),
                    "before": super::fsutil::tree_json(&before), "after": super::fsutil::tree_json(&after)}));
            }
            // the file deleted (a cleaned bindings directory), every type exported once more: the file is complete again
            if pi % 3 == 0 {
                let _ = std::fs::remove_file(&target);
                for &j in perm.iter().rev() {
                    let _ = guarded(|| (reg[group[j]].export)());
                }
                seq_evals += 1;
                let again = snapshot(&root);
                if again != before && !reported {
                    seq_fails += 1;
                    log.emit(json!({"ev": "fail", "monitor": "C05", "part": "sequential", "kind": "incomplete-after-deletion-and-re-export", "class": class,
                        "origin": file, "order": perm.iter().rev().map(|&j| reg[group[j]].id.clone()).collect::<Vec<_>>(),
                        "before": super::fsutil::tree_json(&before), "after": super::fsutil::tree_json(&again)}));
                }
            }
        }
    }
    log.emit(json!({"ev": "summary", "monitor": "C05", "part": "sequential", "histories": seq_hist, "evaluations": seq_evals, "fails": seq_fails}));

    // ---- (c) concurrent exports ------------------------------------------------------------
    let runs = if args.thorough() { 40_000 } else { 2_400 } / shards.max(1);
    concurrent(args, reg, &groups, &root, &out, runs, shard, log);
    verif::set_probe(None);
    clear_dir(&root);
    let _ = std::fs::remove_dir_all(&root);
}

/// Weaker oracle for configurations whose file text the reference composition does not model (the `format` feature):
/// for every shared file and every order of its types (at most 720), real exports must not fail or panic, the final file
/// must parse, declare every type of the group exactly once, and be byte-identical for all orders.
fn orders_only(args: &Args, reg: &[TypeEntry], groups: &[(String, Vec<usize>)], shard: u64, shards: u64, log: &mut Log) {
    let root = args.scratch.join(format!("c05o-{shard}"));
    std::fs::create_dir_all(&root).unwrap();
    let out = root.join("out");
    std::env::set_var("TS_RS_EXPORT_DIR", &out);
    let mut histories = 0u64;
    let mut fails = 0u64;
    let alts = alternates(reg);
    for (gi, (file, group)) in groups.iter().enumerate() {
        if gi as u64 % shards.max(1) != shard {
            continue;
        }
        let class = class_of_group(reg, group);
        let mut first: Option<(Vec<String>, String)> = None;
        let mut reported = false;
        for perm in permutations(group.len()).into_iter().take(720) {
            histories += 1;
            clear_dir(&root);
            verif::reset_registry();
            let order: Vec<String> = perm.iter().map(|&j| reg[group[j]].id.clone()).collect();
            let mut problem: Option<(String, String)> = None;
            for &j in &perm {
                match guarded(|| (pick(reg, &alts, group[j], histories as usize + j).export)()) {
                    Ok(Ok(())) => {}
                    Ok(Err(e)) => problem = problem.or(Some(("export-returned-an-error".into(), e))),
                    Err(p) => problem = problem.or(Some(("export-panicked".into(), p))),
                }
            }
            let got = std::fs::read_to_string(out.join(file)).unwrap_or_else(|e| format!("<unreadable: {e}>"));
            if problem.is_none() {
                match tsmodel::parse::parse_module(&got) {
                    Err(e) => problem = Some(("merged-file-does-not-parse".into(), e)),
                    Ok(m) => {
                        let mut names: Vec<String> = m.decls().map(|d| d.name.clone()).collect();
                        names.sort();
                        let mut want: Vec<String> = group.iter().map(|&i| (reg[i].ident)()).collect();
                        want.sort();
                        if names != want {
                            problem = Some(("declared-names-differ".into(), format!("declared {names:?}, exported {want:?}")));
                        }
                    }
                }
            }
            if problem.is_none() {
                match &first {
                    None => first = Some((order.clone(), got.clone())),
                    Some((o0, g0)) if g0 != &got => problem = Some(("order-dependent".into(), format!("differs from the file after {o0:?}"))),
                    _ => {}
                }
            }
            if let Some((kind, what)) = problem {
                fails += 1;
                if !reported {
                    reported = true;
                    log.emit(json!({"ev": "fail", "monitor": "C05", "part": "orders", "kind": kind, "class": class, "origin": file,
                        "order": order, "what": what.chars().take(400).collect::<String>(), "got": got.chars().take(1500).collect::<String>(),
                        "registry_poisoned": verif::registry_is_poisoned()}));
                }
            }
        }
    }
    log.emit(json!({"ev": "summary", "monitor": "C05", "part": "orders", "histories": histories, "fails": fails, "format": cfg!(feature = "format")}));
    clear_dir(&root);
    let _ = std::fs::remove_dir_all(&root);
}

// ------------------------------------------------------------------------------------------
// probe: event log + schedule perturbation

#[derive(Clone, Debug)]
struct Ev {
    thread: usize,
    point: &'static str,
    ty: String,
}

struct ProbeState {
    events: Vec<Ev>,
    seed: u64,
}

static PROBE: Mutex<Option<ProbeState>> = Mutex::new(None);

thread_local! {
    static THREAD_IX: Cell<usize> = const { Cell::new(usize::MAX) };
}

fn probe(point: &'static str, _path: &Path, type_name: &str) {
    let t = THREAD_IX.with(|c| c.get());
    let seed = {
        let mut g = PROBE.lock().unwrap_or_else(|e| e.into_inner());
        match g.as_mut() {
            Some(s) => {
                s.events.push(Ev { thread: t, point, ty: type_name.to_string() });
                s.seed
            }
            None => return,
        }
    };
    // seeded perturbation, decided without holding the monitor's own lock
    let mut r = Rng::new(seed ^ ((t as u64) << 32) ^ (point.len() as u64 * 0x9E37) ^ (point.as_bytes()[0] as u64) << 8);
    match point {
        "enter" => match r.below(4) {
            0 => {}
            1 => std::thread::yield_now(),
            k => std::thread::sleep(Duration::from_micros(40 * k as u64)),
        },
        // inside the critical section: inert while the lock is held, exposes a narrowed lock
        "after_read" | "before_write" => {
            if r.chance(1, 2) {
                std::thread::sleep(Duration::from_micros(60));
            } else {
                std::thread::yield_now();
            }
        }
        _ => {}
    }
}

#[allow(clippy::too_many_arguments)]
fn concurrent(
    args: &Args,
    reg: &[TypeEntry],
    groups: &[(String, Vec<usize>)],
    root: &Path,
    out: &PathBuf,
    runs: u64,
    shard: u64,
    log: &mut Log,
) {
    verif::set_probe(Some(probe));
    let mut rng = Rng::new(args.seed ^ 0xC05C ^ shard << 20);
    let mut orders: HashMap<String, HashSet<Vec<usize>>> = HashMap::new();
    let mut fails = 0u64;
    let mut total_runs = 0u64;
    let mut overlap_windows = 0u64;
    for run in 0..runs {
        let (file, group) = &groups[rng.below(groups.len())];
        let class = class_of_group(reg, group);
        let parts: Vec<Part> = group
            .iter()
            .filter_map(|&i| {
                guarded(|| (reg[i].export_to_string)()).ok().and_then(|r| r.ok()).and_then(|t| part_of(&reg[i].id, &t).ok())
            })
            .collect();
        if parts.len() != group.len() {
            continue;
        }
        // threads: every type of the file, sometimes one of them twice
        let mut jobs: Vec<usize> = group.clone();
        if rng.chance(1, 3) {
            jobs.push(group[rng.below(group.len())]);
        }
        if jobs.len() < 8 && rng.chance(1, 4) {
            jobs.push(group[rng.below(group.len())]);
        }
        rng.shuffle(&mut jobs);
        clear_dir(root);
        verif::reset_registry();
        *PROBE.lock().unwrap_or_else(|e| e.into_inner()) = Some(ProbeState { events: vec![], seed: rng.next() });
        let barrier = Arc::new(Barrier::new(jobs.len()));
        let results: Vec<Result<Result<(), String>, String>> = std::thread::scope(|s| {
            let handles: Vec<_> = jobs
                .iter()
                .enumerate()
                .map(|(t, &i)| {
                    let b = barrier.clone();
                    let f = reg[i].export;
                    s.spawn(move || {
                        THREAD_IX.with(|c| c.set(t));
                        b.wait();
                        guarded(f)
                    })
                })
                .collect();
            handles.into_iter().map(|h| h.join().unwrap_or_else(|_| Err("thread died".into()))).collect()
        });
        total_runs += 1;
        let events = PROBE.lock().unwrap_or_else(|e| e.into_inner()).take().map(|s| s.events).unwrap_or_default();
        // event-log invariant: nobody else is inside export_and_merge between a thread's read/first write and its `written`
        let mut holder: Option<usize> = None;
        let mut violation: Option<String> = None;
        let mut order = vec![];
        let mut entered_while_held = false;
        for (k, e) in events.iter().enumerate() {
            match e.point {
                "enter" => {
                    if holder.is_some() {
                        entered_while_held = true;
                    }
                }
                "locked" => {
                    order.push(jobs[e.thread]);
                    if let Some(h) = holder {
                        if h != e.thread {
                            violation = Some(format!("event {k}: thread {} acquired the registry while thread {h} was between read and write", e.thread));
                        }
                    }
                }
                "after_read" | "before_write" => {
                    if let Some(h) = holder {
                        if h != e.thread && violation.is_none() {
                            violation = Some(format!("event {k}: thread {} at {} while thread {h} is in its critical section", e.thread, e.point));
                        }
                    }
                    holder = Some(e.thread);
                }
                "written" => {
                    if holder == Some(e.thread) {
                        holder = None;
                    }
                }
                _ => {}
            }
        }
        if entered_while_held {
            overlap_windows += 1;
        }
        orders.entry(file.clone()).or_default().insert(order.clone());
        let refs: Vec<&Part> = parts.iter().collect();
        let expected = compose(&refs);
        let got = std::fs::read_to_string(out.join(file)).unwrap_or_else(|e| format!("<unreadable: {e}>"));
        let all_ok = results.iter().all(|r| matches!(r, Ok(Ok(()))));
        let poisoned = verif::registry_is_poisoned();
        let mut kinds = vec![];
        if let Some(v) = &violation {
            kinds.push(("mutual-exclusion", v.clone()));
        }
        if !all_ok {
            kinds.push(("export-failed", format!("{results:?}")));
        }
        if poisoned {
            kinds.push(("registry-poisoned", String::new()));
        }
        if got != expected {
            kinds.push(("final-file-differs", String::new()));
        }
        if !kinds.is_empty() && fails < 40 {
            fails += 1;
            log.emit(json!({"ev": "fail", "monitor": "C05", "part": "concurrent", "kind": kinds[0].0, "kinds": kinds, "class": class,
                "origin": file, "threads": jobs.iter().map(|&i| reg[i].id.clone()).collect::<Vec<_>>(),
                "events": events.iter().map(|e| format!("{}:{}:{}", e.thread, e.point, e.ty)).collect::<Vec<_>>(),
                "expected": expected, "got": got, "run": run}));
        } else if !kinds.is_empty() {
            fails += 1;
        }
    }
    let mut distinct: BTreeMap<String, Value> = BTreeMap::new();
    for (f, set) in &orders {
        let mut sample: Vec<_> = set.iter().take(3).map(|o| o.iter().map(|&i| reg[i].id.clone()).collect::<Vec<_>>()).collect();
        sample.sort();
        distinct.insert(f.clone(), json!({"distinct_lock_orders": set.len(), "examples": sample}));
    }
    log.emit(json!({"ev": "summary", "monitor": "C05", "part": "concurrent", "runs": total_runs, "fails": fails,
        "enter_during_critical_section": overlap_windows, "per_file": distinct}));
}
