//! C07: declarations of generic types are parametric and well-scoped.

use serde_json::{json, Value};
use tsmodel::{parse, Ty, Verdict};

use super::build_env;
use crate::{guarded, Args, Log, TypeEntry};

fn ty_json(t: &Option<Ty>) -> Value {
    match t {
        Some(t) => json!(format!("{t:?}")),
        None => Value::Null,
    }
}

pub fn c07(_args: &Args, reg: &[TypeEntry], log: &mut Log) {
    for e in reg {
        log.start(&e.id, &e.rust);
        let decl = guarded(e.decl);
        let name = guarded(e.name);
        let decl_concrete = guarded(e.decl_concrete);
        let inline = guarded(e.inline);
        let ident = guarded(e.ident);
        let arg_names: Vec<Result<String, String>> = e.arg_names.iter().map(|f| guarded(*f)).collect();
        let info = build_env(e);
        let mut problems: Vec<Value> = info.problems.iter().map(|(k, d)| json!({"kind": k, "detail": d})).collect();
        let parsed = decl.as_ref().ok().and_then(|t| parse::parse_decl(t).ok());
        let mut params = vec![];
        let mut free = vec![];
        let mut unresolved = vec![];
        if let Some(d) = &parsed {
            for (p, def) in &d.params {
                let mut fr = Default::default();
                if let Some(def) = def {
                    def.free_names(&Default::default(), &mut fr);
                }
                params.push(json!({"name": p, "default": ty_json(def), "default_free": fr.into_iter().collect::<Vec<_>>()}));
            }
            for n in d.free_names() {
                if n != d.name && !info.env.decls.contains_key(&n) {
                    unresolved.push(n.clone());
                }
                free.push(n);
            }
        }
        // name() must be the identifier applied to the arguments' names
        let mut name_form = Value::Null;
        if let (Ok(n), Ok(id)) = (&name, &ident) {
            match parse::parse_type(n) {
                Ok(Ty::Ref(head, args)) => {
                    let want: Vec<Option<Ty>> = arg_names.iter().map(|a| a.as_ref().ok().and_then(|t| parse::parse_type(t).ok())).collect();
                    let same_args = args.len() == want.len() && args.iter().zip(&want).all(|(a, w)| w.as_ref() == Some(a));
                    name_form = json!({"head_is_ident": &head == id, "args_match": same_args, "n_args": args.len()});
                }
                Ok(other) => name_form = json!({"not_a_reference": format!("{other:?}")}),
                Err(err) => name_form = json!({"unparseable": err}),
            }
        }
        // expanding the generic declaration at the arguments denotes the same type as the concrete declaration
        let mut equiv = Value::Null;
        if let (Some(d), Ok(dc)) = (&parsed, &decl_concrete) {
            let args: Option<Vec<Ty>> = arg_names.iter().map(|a| a.as_ref().ok().and_then(|t| parse::parse_type(t).ok())).collect();
            match (args, parse::parse_decl(dc)) {
                (Some(args), Ok(cd)) if args.len() == d.params.len() || !e.arg_names.is_empty() || d.params.is_empty() => {
                    let expanded = Ty::Ref(d.name.clone(), args);
                    let a = info.env.included(&expanded, &cd.body, 3, 60);
                    let b = info.env.included(&cd.body, &expanded, 3, 60);
                    let na = info.env.witnesses(&expanded, 3, 60).map(|w| w.len()).unwrap_or(0);
                    let nb = info.env.witnesses(&cd.body, 3, 60).map(|w| w.len()).unwrap_or(0);
                    let show = |r: Result<Option<(Value, tsmodel::Fail)>, String>| match r {
                        Ok(None) => json!("included"),
                        Ok(Some((w, f))) => json!({"counter_witness": w, "path": f.path, "reason": f.reason}),
                        Err(s) => json!({"inconclusive": s}),
                    };
                    equiv = json!({"expanded_in_concrete": show(a), "concrete_in_expanded": show(b), "witnesses": [na, nb]});
                    if let Ok(inl) = &inline {
                        if let Ok(it) = parse::parse_type(inl) {
                            if it.strip_docs() != cd.body.strip_docs() {
                                problems.push(json!({"kind": "inline-differs-from-decl_concrete", "detail": format!("{inl} vs {dc}")}));
                            }
                        }
                    }
                    let _ = Verdict::Ok;
                }
                (_, Err(err)) => problems.push(json!({"kind": "unparseable-decl_concrete", "detail": format!("{dc}: {err}")})),
                _ => {}
            }
        }
        // what an export of this instantiation would write (the file of a generic type is written by whichever instantiation
        // happens to be exported first)
        let exported = match guarded(e.export_to_string) {
            Ok(Ok(s)) => json!({"Ok": s}),
            Ok(Err(err)) => json!({"Err": err}),
            Err(p) => json!({"Panic": p}),
        };
        log.emit(json!({"ev": "generic", "monitor": "C07", "id": e.id, "rust": e.rust,
            "decl": decl, "name": name, "decl_concrete": decl_concrete, "inline": inline, "ident": ident,
            "arg_names": arg_names, "params": params, "free": free, "unresolved": unresolved,
            "parsed": parsed.is_some(), "exported": exported, "name_form": name_form, "equiv": equiv, "problems": problems}));
    }
}
