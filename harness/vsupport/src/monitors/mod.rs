//! Monitors: each observes executions of the real ts-rs code and emits events with verdicts.

use serde_json::{json, Value};
use tsmodel::{parse, Decl, Env, Ty};

use crate::{Args, Log, TypeEntry};

pub mod determinism;
pub mod docs;
pub mod exports;
pub mod fsutil;
pub mod generic;
pub mod history;
pub mod libtypes;
pub mod merge;
pub mod paths;
pub mod present;
pub mod sem;

pub fn dispatch(args: &Args, reg: &[TypeEntry], log: &mut Log) {
    match args.monitor.as_str() {
        "selftest" => selftest(log),
        "C01" => sem::c01(args, reg, log),
        "C02" => sem::c02(args, reg, log),
        "C05" => merge::c05(args, reg, log),
        "C06" => history::c06(args, reg, log),
        "C07" => generic::c07(args, reg, log),
        "C08" => paths::c08(args, log),
        "C12" => libtypes::c12(args, log),
        "C13" => determinism::c13(args, reg, log),
        "C14" => present::c14(args, reg, log),
        "C17" => history::c17(args, reg, log),
        "exports" => exports::exports(args, reg, log),
        "declinfo" => docs::declinfo(args, reg, log),
        "docscheck" => docs::docscheck(args, log),
        "dump" => dump(reg, log),
        other => panic!("unknown monitor {other}"),
    }
}

fn selftest(log: &mut Log) {
    let (n, fails) = tsmodel::selftest::run();
    log.emit(json!({"ev": "selftest", "checked": n, "failures": fails}));
}

/// Everything the public string-returning functions say about every registered type.
pub fn dump(reg: &[TypeEntry], log: &mut Log) {
    for e in reg {
        log.start(&e.id, &e.rust);
        log.emit(json!({
            "ev": "dump", "id": e.id, "rust": e.rust,
            "name": crate::guarded(e.name).map_err(|p| format!("panic: {p}")),
            "ident": crate::guarded(e.ident).map_err(|p| format!("panic: {p}")),
            "decl": crate::guarded(e.decl).map_err(|p| format!("panic: {p}")),
            "decl_concrete": crate::guarded(e.decl_concrete).map_err(|p| format!("panic: {p}")),
            "inline": crate::guarded(e.inline).map_err(|p| format!("panic: {p}")),
            "docs": e.docs,
            "output_path": crate::guarded(e.output_path).ok().flatten().map(|p| p.to_string_lossy().to_string()),
            "export_to_string": crate::guarded(e.export_to_string).map_err(|p| format!("panic: {p}")).and_then(|r| r),
            "dependencies": crate::guarded(e.dependencies).map(|d| {
                let mut v: Vec<_> = d.iter().map(|d| format!("{}@{}", d.ts_name, d.output_path.to_string_lossy())).collect();
                v.sort();
                v
            }).map_err(|p| format!("panic: {p}")),
        }));
    }
}

pub struct EnvInfo {
    pub env: Env,
    /// (kind, detail) – defects of the declarations themselves
    pub problems: Vec<(String, String)>,
    pub decl_texts: Vec<String>,
}

/// Declarations of the type and of everything it (transitively) says it depends on.
pub fn build_env(e: &TypeEntry) -> EnvInfo {
    let mut env = Env::new();
    let mut problems = vec![];
    let mut decl_texts = vec![];
    let decls = crate::guarded(e.collect).unwrap_or_else(|p| {
        problems.push(("panic|collect".to_string(), p));
        vec![]
    });
    for d in decls {
        match &d.decl {
            Err(p) => problems.push(("panic|decl".into(), format!("{}: {p}", d.ident))),
            Ok(text) => match parse::parse_decl(text) {
                Err(err) => problems.push(("unparseable-decl".into(), format!("{text} :: {err}"))),
                Ok(parsed) => {
                    decl_texts.push(text.clone());
                    if let Some(prev) = env.decls.get(&parsed.name) {
                        if prev != &parsed {
                            problems.push(("name-clash".into(), parsed.name.clone()));
                        }
                    }
                    if parsed.name != d.ident {
                        problems.push((
                            "decl-name-differs-from-ident".into(),
                            format!("{} vs {}", parsed.name, d.ident),
                        ));
                    }
                    env.add(parsed);
                }
            },
        }
    }
    EnvInfo {
        env,
        problems,
        decl_texts,
    }
}

pub fn parse_ty(text: &Result<String, String>) -> Result<Ty, (String, String)> {
    match text {
        Err(p) => Err(("panic".into(), p.clone())),
        Ok(t) => parse::parse_type(t).map_err(|e| ("unparseable-type".to_string(), format!("{t} :: {e}"))),
    }
}

pub fn parse_decl_text(text: &Result<String, String>) -> Result<Decl, (String, String)> {
    match text {
        Err(p) => Err(("panic".into(), p.clone())),
        Ok(t) => parse::parse_decl(t).map_err(|e| ("unparseable-decl".to_string(), format!("{t} :: {e}"))),
    }
}

pub fn fail_json(against: &str, v: &Value, f: &tsmodel::Fail) -> Value {
    json!({"against": against, "value": v, "path": f.path, "reason": f.reason, "in_decl": f.in_decl, "also": f.also})
}
