//! Export observation for C03 / C04 / C11: every root type is exported (with dependencies) into a scratch
//! directory that already holds unrelated files; the event describes every file found afterwards as swc sees it.

use std::collections::{BTreeMap, BTreeSet};

use serde_json::{json, Value};
use ts_rs::verif;

use super::fsutil::{clear_dir, files_only, snapshot};
use crate::{guarded, rng::Rng, Args, Log, TypeEntry};

/// Every property name and string literal of a type, as swc cooked them.
pub fn strings_of(ty: &tsmodel::Ty, out: &mut Vec<String>) {
    use tsmodel::Ty;
    match ty {
        Ty::LitStr(s) => out.push(s.clone()),
        Ty::Array(t) => strings_of(t, out),
        Ty::Tuple(ts) | Ty::Union(ts) | Ty::Inter(ts) => ts.iter().for_each(|t| strings_of(t, out)),
        Ty::Object(o) => {
            for p in &o.props {
                out.push(p.name.clone());
                strings_of(&p.ty, out);
            }
            for i in &o.index {
                strings_of(&i.key, out);
                strings_of(&i.val, out);
            }
        }
        Ty::Ref(_, a) => a.iter().for_each(|t| strings_of(t, out)),
        _ => {}
    }
}

pub fn describe_file(text: &str) -> Value {
    match tsmodel::parse::parse_module(text) {
        Err(e) => json!({"parse_error": e, "text": text}),
        Ok(m) => {
            let mut items = vec![];
            let mut imports = vec![];
            let mut decls = vec![];
            for it in &m.items {
                match it {
                    tsmodel::Item::Import(i) => {
                        items.push("import".to_string());
                        imports.push(json!({"names": i.names, "spec": i.spec, "type_only": i.type_only}));
                    }
                    tsmodel::Item::Alias(d) => {
                        items.push(if d.exported { "export-type".to_string() } else { "type".to_string() });
                        let free: Vec<String> = d.free_names().into_iter().collect();
                        let mut strings = vec![];
                        strings_of(&d.body, &mut strings);
                        decls.push(json!({"name": d.name, "free": free, "strings": strings, "params": d.params.iter().map(|p| p.0.clone()).collect::<Vec<_>>(),
                            "has_docs": !d.docs.is_empty(), "unsupported": d.body.has_unsupported()}));
                    }
                    tsmodel::Item::Other(k) => items.push(format!("other:{k}")),
                }
            }
            json!({"parse_error": null, "first_line": m.first_line, "ends_with_newline": m.ends_with_newline, "items": items,
                "imports": imports, "decls": decls, "stray_comments": m.stray_comments})
        }
    }
}

pub fn exports(args: &Args, reg: &[TypeEntry], log: &mut Log) {
    // the working directory lies two levels below the observed root, so that an `export_to` climbing two levels above the
    // export directory still lands inside what the snapshots see
    let root = args.scratch.join("exports/deep/cwd");
    let cwd = root.join("w1/w2");
    std::fs::create_dir_all(&cwd).unwrap();
    std::env::set_current_dir(&cwd).unwrap();
    let mut rng = Rng::new(args.seed ^ 0xE0);
    let esm = cfg!(feature = "import-esm");
    for (k, e) in reg.iter().enumerate() {
        log.start(&e.id, &e.rust);
        clear_dir(&root);
        std::fs::create_dir_all(&cwd).unwrap();
        std::env::set_current_dir(&cwd).unwrap();
        verif::reset_registry();
        // directory spelling for this root
        let (spelling, dname, use_env): (String, &str, bool) = match (k + rng.below(4)) % 6 {
            5 => {
                // through a symbolic link: `lnk` -> `real` (the files are expected where they really are)
                let _ = std::fs::create_dir_all(cwd.join("real"));
                #[cfg(unix)]
                let _ = std::os::unix::fs::symlink(cwd.join("real"), cwd.join("lnk"));
                ("lnk/out".into(), "w1/w2/real/out", false)
            }
            0 => (String::new(), "w1/w2/bindings", true), // default ./bindings through export_all()
            1 => ("out".into(), "w1/w2/out", false),
            2 => (cwd.join("out").to_string_lossy().to_string(), "w1/w2/out", false),
            3 => ("./x/../out/.".into(), "w1/w2/out", false),
            _ => ("out/".into(), "w1/w2/out", false),
        };
        // unrelated files that must survive untouched
        let d = root.join(dname);
        std::fs::create_dir_all(d.join("keep")).unwrap();
        std::fs::write(d.join("unrelated.ts"), b"export type Unrelated = 1;\n").unwrap();
        std::fs::write(d.join("keep/notes.txt"), b"notes\n").unwrap();
        std::fs::write(root.join("outside.txt"), b"outside\n").unwrap();
        let before_full = snapshot(&root);
        let before = files_only(&before_full);
        // every other root: an earlier run (of a longer version of the same types) left files at the places this export
        // writes to; they are not part of `before`, so what the export leaves there is examined like any file it wrote
        let mut stale_seeded: BTreeMap<String, Vec<u8>> = BTreeMap::new();
        if (k as u64 + args.seed) % 2 == 0 {
            for dep in guarded(e.collect).unwrap_or_default() {
                let rel = dep.output_path.to_string_lossy().to_string();
                if dep.output_path.is_absolute() || rel.split('/').any(|c| c == ".." || c == "." || c.is_empty()) {
                    continue;
                }
                let key = format!("{dname}/{rel}");
                let target = root.join(&key);
                if target.exists() || target.parent().map_or(true, |p| std::fs::create_dir_all(p).is_err()) {
                    continue;
                }
                let mut stale = String::from("// This file was generated by [ts-rs](https://github.com/Aleph-Alpha/ts-rs). Do not edit this file manually.\n");
                stale.push_str("import type { ZzLeftoverDep } from \"./ZzLeftoverDep\";\n\n/**\n * left by an earlier run\n */\nexport type ZzLeftover = {");
                for i in 0..(40 + rng.below(200)) {
                    stale.push_str(&format!(" leftover_field_{i}: Array<ZzLeftoverDep | null>,"));
                }
                stale.push_str(" };\n");
                if std::fs::write(&target, stale.as_bytes()).is_ok() {
                    stale_seeded.insert(key, stale.into_bytes());
                }
            }
        }
        // every third root: one of its dependencies was exported alone earlier in the same process (into the same directory)
        let mut pre_exported: Option<String> = None;
        if k % 3 == 1 {
            let wanted: Vec<String> = guarded(e.collect).unwrap_or_default().iter().skip(1).map(|d| d.ident.clone()).collect();
            let cands: Vec<&TypeEntry> = reg
                .iter()
                .filter(|o| o.id != e.id && o.arg_names.is_empty() && !o.rust.contains('<') && guarded(o.ident).map_or(false, |i| wanted.contains(&i)))
                .collect();
            if !cands.is_empty() {
                let o = cands[rng.below(cands.len())];
                if use_env {
                    std::env::remove_var("TS_RS_EXPORT_DIR");
                } else {
                    std::env::set_var("TS_RS_EXPORT_DIR", &spelling);
                }
                if let Ok(Ok(())) = guarded(o.export) {
                    pre_exported = Some(o.id.clone());
                }
            }
        }
        std::env::remove_var("TS_RS_EXPORT_DIR");
        let result = if use_env {
            guarded(|| (e.export_all)())
        } else {
            let p = std::path::PathBuf::from(&spelling);
            guarded(|| (e.export_all_to)(&p))
        };
        let after_full = snapshot(&root);
        // directories that exist now, hold nothing, and were not there before
        let stray_dirs: Vec<String> = after_full.keys().filter(|k| k.ends_with('/') && !before_full.contains_key(*k)).cloned().collect();
        let mut after = files_only(&after_full);
        // a seeded leftover the export never touched counts as a file that was not written
        let stale_untouched: Vec<String> = stale_seeded.iter().filter(|(p, b)| after.get(*p) == Some(*b)).map(|(p, _)| p.clone()).collect();
        for p in &stale_untouched {
            after.remove(p);
            let _ = std::fs::remove_file(root.join(p));
        }
        let mut files = BTreeMap::new();
        let mut untouched_ok = true;
        let mut removed = vec![];
        for (p, b) in &before {
            match after.get(p) {
                Some(a) if a == b => {}
                Some(_) => untouched_ok = false,
                None => {
                    untouched_ok = false;
                    removed.push(p.clone());
                }
            }
        }
        for (p, bytes) in &after {
            if before.contains_key(p) {
                continue;
            }
            files.insert(p.clone(), describe_file(&String::from_utf8_lossy(bytes)));
        }
        // the same export once more in the same process after its output was deleted: the files come back
        let mut reexport = json!(null);
        if matches!(result, Ok(Ok(()))) {
            let written: Vec<&String> = after.keys().filter(|p| !before.contains_key(*p)).collect();
            for p in &written {
                let _ = std::fs::remove_file(root.join(p));
            }
            let again = if use_env {
                guarded(|| (e.export_all)())
            } else {
                let p = std::path::PathBuf::from(&spelling);
                guarded(|| (e.export_all_to)(&p))
            };
            let third = files_only(&snapshot(&root));
            let missing: Vec<&String> = written.iter().copied().filter(|p| third.get(*p) != after.get(*p)).collect();
            // what the files hold now (C04: every type exported to a file is declared in it - also after a clean)
            let refiles: BTreeMap<String, Value> = written
                .iter()
                .filter_map(|p| third.get(*p).map(|b| ((*p).clone(), describe_file(&String::from_utf8_lossy(b)))))
                .collect();
            reexport = json!({"result": format!("{again:?}"), "missing_or_different": missing, "files": refiles});
        }
        let collected: Vec<Value> = guarded(e.collect)
            .unwrap_or_default()
            .iter()
            .map(|d| json!({"ident": d.ident, "path": d.output_path.to_string_lossy()}))
            .collect();
        let deps: BTreeSet<String> = guarded(e.dependencies).unwrap_or_default().into_iter().map(|d| d.ts_name).collect();
        let decl = guarded(e.decl);
        let decl_free: Option<Vec<String>> = decl.as_ref().ok().and_then(|t| tsmodel::parse::parse_decl(t).ok()).map(|d| {
            let own = d.name.clone();
            d.free_names().into_iter().filter(|n| n != &own).collect()
        });
        let result_json = match &result {
            Ok(Ok(())) => json!("ok"),
            Ok(Err(x)) => json!({ "err": x }),
            Err(p) => json!({ "panic": p }),
        };
        std::env::remove_var("TS_RS_EXPORT_DIR");
        let default_output_path = guarded(e.default_output_path).ok().flatten().map(|p| p.to_string_lossy().to_string());
        let output_path = guarded(e.output_path).ok().flatten().map(|p| p.to_string_lossy().to_string());
        let ident = guarded(e.ident).ok();
        let decl_text = decl.ok();
        log.emit(json!({
            "ev": "root", "monitor": "exports", "id": e.id, "rust": e.rust, "esm": esm,
            "dir_spelling": spelling, "dname": dname, "via_default_dir": use_env, "pre_exported": pre_exported,
            "result": result_json,
            "files": files, "untouched_ok": untouched_ok, "removed": removed, "stray_dirs": stray_dirs, "reexport_after_delete": reexport,
            "stale_seeded": stale_seeded.keys().collect::<Vec<_>>(), "stale_untouched": stale_untouched,
            "collected": collected, "dependencies": deps, "decl_free": decl_free, "decl": decl_text,
            "ident": ident, "output_path": output_path, "default_output_path": default_output_path,
        }));
    }
    clear_dir(&root);
    std::env::set_current_dir("/").ok();
    let _ = std::fs::remove_dir_all(args.scratch.join("exports"));
}
