//! Tiny deterministic PRNG (splitmix64) – no external crates.

#[derive(Clone, Debug)]
pub struct Rng(pub u64);

impl Rng {
    pub fn new(seed: u64) -> Self {
        Rng(seed.wrapping_mul(0x9E3779B97F4A7C15) ^ 0xD1B54A32D192ED03)
    }
    pub fn next(&mut self) -> u64 {
        self.0 = self.0.wrapping_add(0x9E3779B97F4A7C15);
        let mut z = self.0;
        z = (z ^ (z >> 30)).wrapping_mul(0xBF58476D1CE4E5B9);
        z = (z ^ (z >> 27)).wrapping_mul(0x94D049BB133111EB);
        z ^ (z >> 31)
    }
    pub fn below(&mut self, n: usize) -> usize {
        if n == 0 {
            0
        } else {
            (self.next() % n as u64) as usize
        }
    }
    pub fn chance(&mut self, num: u64, den: u64) -> bool {
        self.next() % den < num
    }
    pub fn shuffle<T>(&mut self, v: &mut [T]) {
        for i in (1..v.len()).rev() {
            let j = self.below(i + 1);
            v.swap(i, j);
        }
    }
    pub fn choose<'a, T>(&mut self, v: &'a [T]) -> &'a T {
        &v[self.below(v.len())]
    }
}
