// In-process monitor of the derive macro. Included into `ts-rs-macros`' test build through the
// `verif-hooks` feature (see /repo/macros/src/lib.rs); lives in /verif.
//
// Driven by a job file (TS_RS_VERIF_JOB) and writes an event log (TS_RS_VERIF_OUT), one JSON object per line.
// Only std + the macro crate's own dependencies (proc-macro2, quote, syn) are available here.

#[allow(unused, dead_code, clippy::all)]
mod serde_case {
    include!(concat!(env!("TS_RS_VERIF_DIR"), "/harness/third_party/serde_derive_case.rs"));
}

use std::{
    collections::{BTreeMap, BTreeSet},
    fmt::Write as _,
    io::Write as _,
    panic::{catch_unwind, AssertUnwindSafe},
    str::FromStr,
};

use proc_macro2::TokenStream;
use quote::ToTokens;

use self::serde_case::RenameRule;
use crate::attr::Inflection;

fn js(s: &str) -> String {
    let mut o = String::with_capacity(s.len() + 2);
    o.push('"');
    for c in s.chars() {
        match c {
            '"' => o.push_str("\\\""),
            '\\' => o.push_str("\\\\"),
            '\n' => o.push_str("\\n"),
            '\r' => o.push_str("\\r"),
            '\t' => o.push_str("\\t"),
            c if (c as u32) < 0x20 => {
                let _ = write!(o, "\\u{:04x}", c as u32);
            }
            c => o.push(c),
        }
    }
    o.push('"');
    o
}

fn unescape(s: &str) -> String {
    let mut o = String::with_capacity(s.len());
    let mut it = s.chars();
    while let Some(c) = it.next() {
        if c == '\\' {
            match it.next() {
                Some('n') => o.push('\n'),
                Some('t') => o.push('\t'),
                Some('r') => o.push('\r'),
                Some('\\') => o.push('\\'),
                Some(x) => {
                    o.push('\\');
                    o.push(x)
                }
                None => o.push('\\'),
            }
        } else {
            o.push(c);
        }
    }
    o
}

fn panic_msg(e: Box<dyn std::any::Any + Send>) -> String {
    if let Some(s) = e.downcast_ref::<&str>() {
        s.to_string()
    } else if let Some(s) = e.downcast_ref::<String>() {
        s.clone()
    } else {
        "<non-string panic>".into()
    }
}

enum Outcome {
    Tokens(TokenStream),
    Error(String),
    Panic(String),
    Unparsable(String),
}

/// What a `macro_rules!` macro hands to the derive when an attribute value comes from a `$v:literal` / `$v:expr` fragment:
/// the literal wrapped in a group without delimiters. Source text prefixed with `//@fragments` gets every literal inside its
/// `#[..]` attributes wrapped that way.
fn literals_as_fragments(ts: TokenStream, in_attr: bool) -> TokenStream {
    use proc_macro2::{Delimiter, Group, TokenTree};
    let mut out = Vec::new();
    let mut after_pound = false;
    for tt in ts {
        match tt {
            TokenTree::Group(g) => {
                let inside_attr = in_attr || (after_pound && g.delimiter() == Delimiter::Bracket);
                let mut ng = Group::new(g.delimiter(), literals_as_fragments(g.stream(), inside_attr));
                ng.set_span(g.span());
                out.push(TokenTree::Group(ng));
                after_pound = false;
            }
            TokenTree::Literal(l) if in_attr => {
                out.push(TokenTree::Group(Group::new(Delimiter::None, TokenStream::from(TokenTree::Literal(l)))));
                after_pound = false;
            }
            TokenTree::Punct(p) => {
                after_pound = p.as_char() == '#';
                out.push(TokenTree::Punct(p));
            }
            other => {
                after_pound = false;
                out.push(other);
            }
        }
    }
    out.into_iter().collect()
}

fn expand(src: &str) -> Outcome {
    let (src, fragments) = match src.strip_prefix("//@fragments\n") {
        Some(rest) => (rest, true),
        None => (src, false),
    };
    let ts = match TokenStream::from_str(src) {
        Ok(t) => t,
        Err(e) => return Outcome::Unparsable(e.to_string()),
    };
    let ts = if fragments { literals_as_fragments(ts, false) } else { ts };
    match catch_unwind(AssertUnwindSafe(|| crate::verif_expand(ts))) {
        Ok(Ok(t)) => Outcome::Tokens(t),
        Ok(Err(e)) => Outcome::Error(e.to_string()),
        Err(p) => Outcome::Panic(panic_msg(p)),
    }
}

/// Token text with the parts whose order legitimately depends on hash iteration put in sorted order:
/// the statements of `visit_dependencies` and the predicates of the impl's where-clause.
fn canonical(ts: &TokenStream) -> String {
    let Ok(mut file) = syn::parse2::<syn::File>(ts.clone()) else {
        return ts.to_string();
    };
    for item in file.items.iter_mut() {
        if let syn::Item::Impl(imp) = item {
            if let Some(w) = imp.generics.where_clause.as_mut() {
                let mut preds: Vec<syn::WherePredicate> = w.predicates.iter().cloned().collect();
                preds.sort_by_key(|p| p.to_token_stream().to_string());
                preds.dedup_by_key(|p| p.to_token_stream().to_string());
                w.predicates = preds.into_iter().collect();
            }
            for it in imp.items.iter_mut() {
                if let syn::ImplItem::Fn(f) = it {
                    if f.sig.ident == "visit_dependencies" {
                        f.block.stmts.sort_by_key(|s| s.to_token_stream().to_string());
                    }
                }
            }
        }
    }
    file.to_token_stream().to_string()
}

fn out_file() -> std::io::BufWriter<std::fs::File> {
    let p = std::env::var("TS_RS_VERIF_OUT").expect("TS_RS_VERIF_OUT");
    std::io::BufWriter::new(std::fs::File::create(p).expect("create out"))
}

fn job() -> Vec<String> {
    let p = std::env::var("TS_RS_VERIF_JOB").expect("TS_RS_VERIF_JOB");
    std::fs::read_to_string(p).expect("job file").lines().map(|l| l.to_string()).collect()
}

fn header(lines: &[String]) -> BTreeMap<String, String> {
    let mut m = BTreeMap::new();
    if let Some(h) = lines.first() {
        for kv in h.split('\t') {
            if let Some((k, v)) = kv.split_once('=') {
                m.insert(k.to_string(), v.to_string());
            }
        }
    }
    m
}

#[test]
fn verif_driver() {
    std::panic::set_hook(Box::new(|_| {}));
    let lines = job();
    let h = header(&lines);
    let mut out = out_file();
    match h.get("mode").map(|s| s.as_str()) {
        Some("expand") => run_expand(&lines[1..], &h, &mut out),
        Some("c09") => run_c09(&h, &mut out),
        Some("docs") => run_docs(&lines[1..], &mut out),
        Some("c09sites") => run_c09_sites(&h, &mut out),
        other => panic!("unknown mode {other:?}"),
    }
    writeln!(out, "{{\"ev\":\"end\",\"ok\":true}}").unwrap();
    out.flush().unwrap();
}

/// job lines: `id \t escaped item source`. For every item: outcome, canonical expansion, how many distinct raw
/// expansions `repeat` runs produced.
fn run_expand(lines: &[String], h: &BTreeMap<String, String>, out: &mut impl std::io::Write) {
    let repeat: usize = h.get("repeat").and_then(|v| v.parse().ok()).unwrap_or(1);
    let want_canon = h.get("canon").map_or(true, |v| v == "1");
    for l in lines {
        let Some((id, src)) = l.split_once('\t') else { continue };
        let src = unescape(src);
        let first = expand(&src);
        let (outcome, msg, canon) = match &first {
            Outcome::Tokens(t) => ("ok", String::new(), if want_canon { canonical(t) } else { String::new() }),
            Outcome::Error(e) => ("err", e.clone(), String::new()),
            Outcome::Panic(p) => ("panic", p.clone(), String::new()),
            Outcome::Unparsable(e) => ("unparsable", e.clone(), String::new()),
        };
        let mut raws = BTreeSet::new();
        let mut canons = BTreeSet::new();
        if let Outcome::Tokens(t) = &first {
            raws.insert(t.to_string());
            canons.insert(canon.clone());
            for _ in 1..repeat {
                if let Outcome::Tokens(t2) = expand(&src) {
                    raws.insert(t2.to_string());
                    canons.insert(canonical(&t2));
                }
            }
        }
        writeln!(
            out,
            "{{\"ev\":\"item\",\"id\":{},\"outcome\":{},\"msg\":{},\"canon\":{},\"raw_variants\":{},\"canon_variants\":{}}}",
            js(id),
            js(outcome),
            js(&msg),
            js(&canon),
            raws.len(),
            canons.len()
        )
        .unwrap();
    }
}

// ------------------------------------------------------------------------------------------
// C09

const RULES: &[(&str, Inflection, RenameRule)] = &[
    ("lowercase", Inflection::Lower, RenameRule::LowerCase),
    ("UPPERCASE", Inflection::Upper, RenameRule::UpperCase),
    ("camelCase", Inflection::Camel, RenameRule::CamelCase),
    ("snake_case", Inflection::Snake, RenameRule::SnakeCase),
    ("PascalCase", Inflection::Pascal, RenameRule::PascalCase),
    ("SCREAMING_SNAKE_CASE", Inflection::ScreamingSnake, RenameRule::ScreamingSnakeCase),
    ("kebab-case", Inflection::Kebab, RenameRule::KebabCase),
    ("SCREAMING-KEBAB-CASE", Inflection::ScreamingKebab, RenameRule::ScreamingKebabCase),
];

const ALPHABET: &[char] = &['a', 'b', 'A', 'B', '1', '_', 'é', 'ß', 'Σ'];

fn ident_class(id: &str, position: &str) -> String {
    let mut c = vec![];
    let first = id.chars().next().unwrap();
    if !id.is_ascii() {
        c.push(if first.is_ascii() { "non-ascii" } else { "non-ascii-initial" });
    }
    if id.starts_with('_') {
        c.push("leading-underscore");
    }
    if id.ends_with('_') {
        c.push("trailing-underscore");
    }
    if id.contains("__") {
        c.push("double-underscore");
    }
    let inner_underscore = id.trim_matches('_').contains('_');
    let has_upper = id.chars().any(|x| x.is_uppercase());
    if position == "field" {
        if has_upper {
            c.push("field-with-uppercase");
        }
    } else {
        if inner_underscore {
            c.push("variant-with-underscore");
        }
        if first.is_lowercase() {
            c.push("variant-lowercase-initial");
        }
    }
    if id.chars().any(|x| x.is_ascii_digit()) {
        c.push("digit");
    }
    if c.is_empty() {
        c.push("conventional");
    }
    c.join("+")
}

fn next_ident(cur: &mut Vec<usize>) -> bool {
    // odometer over ALPHABET
    for i in (0..cur.len()).rev() {
        if cur[i] + 1 < ALPHABET.len() {
            cur[i] += 1;
            return true;
        }
        cur[i] = 0;
    }
    false
}

#[derive(Default)]
struct C09Acc {
    compared: u64,
    agree: u64,
    serde_panics: u64,
    /// (rule, position, class) -> (count, examples)
    diverge: BTreeMap<(String, String, String), (u64, Vec<(String, String, String)>)>,
    tsrs_panics: BTreeMap<(String, String, String), (u64, Vec<String>)>,
    classes_seen: BTreeSet<(String, String)>,
}

fn c09_range(len: usize, first_from: usize, first_to: usize, acc: &mut C09Acc) {
    for f in first_from..first_to {
        let mut cur = vec![0usize; len];
        cur[0] = f;
        loop {
            let id: String = cur.iter().map(|&i| ALPHABET[i]).collect();
            let first = id.chars().next().unwrap();
            let valid = !first.is_ascii_digit() && id != "_";
            if valid {
                for position in ["field", "variant"] {
                    let class = ident_class(&id, position);
                    acc.classes_seen.insert((position.to_string(), class.clone()));
                    for (rname, infl, rule) in RULES {
                        acc.compared += 1;
                        let expect = catch_unwind(AssertUnwindSafe(|| {
                            if position == "field" {
                                rule.apply_to_field(&id)
                            } else {
                                rule.apply_to_variant(&id)
                            }
                        }));
                        let got = catch_unwind(AssertUnwindSafe(|| {
                            // the routine the derive calls for this position (named.rs / enum.rs)
                            if position == "field" {
                                infl.apply_to_field(&id)
                            } else {
                                infl.apply_to_variant(&id)
                            }
                        }));
                        match (expect, got) {
                            (Err(_), _) => acc.serde_panics += 1,
                            (Ok(_), Err(p)) => {
                                let e = acc
                                    .tsrs_panics
                                    .entry((rname.to_string(), position.to_string(), class.clone()))
                                    .or_default();
                                e.0 += 1;
                                if e.1.len() < 3 {
                                    e.1.push(format!("{id}: {}", panic_msg(p)));
                                }
                            }
                            (Ok(e), Ok(g)) => {
                                if e == g {
                                    acc.agree += 1;
                                } else {
                                    let ent = acc
                                        .diverge
                                        .entry((rname.to_string(), position.to_string(), class.clone()))
                                        .or_default();
                                    ent.0 += 1;
                                    if ent.1.len() < 3 {
                                        ent.1.push((id.clone(), e, g));
                                    }
                                }
                            }
                        }
                    }
                }
            }
            // advance positions 1.. only (position 0 is fixed per chunk)
            let mut tail = cur[1..].to_vec();
            if tail.is_empty() || !next_ident(&mut tail) {
                break;
            }
            cur[1..].copy_from_slice(&tail);
        }
    }
}

fn run_c09(h: &BTreeMap<String, String>, out: &mut impl std::io::Write) {
    let maxlen: usize = h.get("maxlen").and_then(|v| v.parse().ok()).unwrap_or(5);
    let mut total = C09Acc::default();
    for len in 1..=maxlen {
        // one thread per first character
        let accs: Vec<C09Acc> = std::thread::scope(|s| {
            let hs: Vec<_> = (0..ALPHABET.len())
                .map(|f| {
                    s.spawn(move || {
                        let mut a = C09Acc::default();
                        c09_range(len, f, f + 1, &mut a);
                        a
                    })
                })
                .collect();
            hs.into_iter().map(|h| h.join().unwrap()).collect()
        });
        for a in accs {
            total.compared += a.compared;
            total.agree += a.agree;
            total.serde_panics += a.serde_panics;
            total.classes_seen.extend(a.classes_seen);
            for (k, v) in a.diverge {
                let e = total.diverge.entry(k).or_default();
                e.0 += v.0;
                for x in v.1 {
                    if e.1.len() < 3 {
                        e.1.push(x);
                    }
                }
            }
            for (k, v) in a.tsrs_panics {
                let e = total.tsrs_panics.entry(k).or_default();
                e.0 += v.0;
                for x in v.1 {
                    if e.1.len() < 3 {
                        e.1.push(x);
                    }
                }
            }
        }
    }
    for ((rule, pos, class), (n, ex)) in &total.diverge {
        let exs: Vec<String> = ex
            .iter()
            .map(|(id, e, g)| format!("{{\"ident\":{},\"serde\":{},\"ts_rs\":{}}}", js(id), js(e), js(g)))
            .collect();
        writeln!(
            out,
            "{{\"ev\":\"diverge\",\"rule\":{},\"position\":{},\"class\":{},\"count\":{},\"examples\":[{}]}}",
            js(rule),
            js(pos),
            js(class),
            n,
            exs.join(",")
        )
        .unwrap();
    }
    for ((rule, pos, class), (n, ex)) in &total.tsrs_panics {
        let exs: Vec<String> = ex.iter().map(|s| js(s)).collect();
        writeln!(
            out,
            "{{\"ev\":\"panic\",\"rule\":{},\"position\":{},\"class\":{},\"count\":{},\"examples\":[{}]}}",
            js(rule),
            js(pos),
            js(class),
            n,
            exs.join(",")
        )
        .unwrap();
    }
    let classes: Vec<String> = total.classes_seen.iter().map(|(p, c)| js(&format!("{p}:{c}"))).collect();
    writeln!(
        out,
        "{{\"ev\":\"summary\",\"maxlen\":{},\"compared\":{},\"agree\":{},\"serde_panics\":{},\"classes\":[{}]}}",
        maxlen,
        total.compared,
        total.agree,
        total.serde_panics,
        classes.join(",")
    )
    .unwrap();
}

// ------------------------------------------------------------------------------------------
// C15: parse_docs on arbitrary attribute lists

/// job lines: `id \t escaped source of an item` – only its attributes are used.
fn run_docs(lines: &[String], out: &mut impl std::io::Write) {
    for l in lines {
        let Some((id, src)) = l.split_once('\t') else { continue };
        let src = unescape(src);
        let r = catch_unwind(AssertUnwindSafe(|| {
            let item: syn::ItemStruct = syn::parse_str(&src).map_err(|e| format!("unparsable: {e}"))?;
            crate::utils::parse_docs(&item.attrs).map_err(|e| format!("error: {e}"))
        }));
        match r {
            Ok(Ok(docs)) => writeln!(out, "{{\"ev\":\"docs\",\"id\":{},\"outcome\":\"ok\",\"docs\":{}}}", js(id), js(&docs)).unwrap(),
            Ok(Err(e)) => writeln!(out, "{{\"ev\":\"docs\",\"id\":{},\"outcome\":\"err\",\"msg\":{}}}", js(id), js(&e)).unwrap(),
            Err(p) => writeln!(out, "{{\"ev\":\"docs\",\"id\":{},\"outcome\":\"panic\",\"msg\":{}}}", js(id), js(&panic_msg(p))).unwrap(),
        }
    }
}

// ------------------------------------------------------------------------------------------
// C09 call sites: the name must also arrive in the expansion, at each of the four places a rule can be written

fn ascii_idents(maxlen: usize) -> Vec<String> {
    let alpha: Vec<char> = ALPHABET.iter().copied().filter(|c| c.is_ascii()).collect();
    let mut out = vec![];
    let mut frontier: Vec<String> = vec![String::new()];
    for _ in 0..maxlen {
        let mut next = vec![];
        for p in &frontier {
            for c in &alpha {
                let mut s = p.clone();
                s.push(*c);
                next.push(s);
            }
        }
        for s in &next {
            let f = s.chars().next().unwrap();
            if !f.is_ascii_digit() && s != "_" {
                out.push(s.clone());
            }
        }
        frontier = next;
    }
    out.extend(["r#type", "r#struct", "fooBar", "foo_bar", "FooBar", "Foo_Bar", "HTTPServer", "x1_y2", "_lead", "trail_", "a__b"].map(String::from));
    out
}

fn run_c09_sites(h: &BTreeMap<String, String>, out: &mut impl std::io::Write) {
    let maxlen: usize = h.get("maxlen").and_then(|v| v.parse().ok()).unwrap_or(3);
    let idents = ascii_idents(maxlen);
    let mut checked = 0u64;
    let mut skipped_serde_panics = 0u64;
    let mut fails: BTreeMap<(String, String, String), (u64, Vec<String>)> = BTreeMap::new();
    for id in &idents {
        let plain = id.trim_start_matches("r#");
        for (rname, _infl, rule) in RULES {
            let mut sites: Vec<(&str, String, bool)> = vec![
                ("struct-rename_all", format!("#[ts(rename_all = \"{rname}\")] struct S {{ {id}: i32 }}"), true),
                ("enum-rename_all", format!("#[ts(rename_all = \"{rname}\")] enum E {{ {id}, Other(i32) }}"), false),
                ("variant-rename_all", format!("enum E {{ #[ts(rename_all = \"{rname}\")] V {{ {id}: i32 }} }}"), true),
                ("enum-rename_all_fields", format!("#[ts(rename_all_fields = \"{rname}\")] enum E {{ V {{ {id}: i32 }}, W }}"), true),
            ];
            if id.len() != 2 {
                // the serde spelling, written behind other serde keys the way real code has it
                sites.extend([
                    ("struct-serde-list", format!("#[serde(transparent, rename_all = \"{rname}\")] struct S {{ {id}: i32 }}"), true),
                    ("enum-serde-list", format!("#[serde(deny_unknown_fields, rename_all = \"{rname}\", tag = \"t\")] enum E {{ {id}, Other {{ z: i32 }} }}"), false),
                    ("variant-serde-list", format!("enum E {{ #[serde(skip_deserializing, rename_all = \"{rname}\")] V {{ {id}: i32 }} }}"), true),
                    ("enum-serde-fields-list", format!("#[serde(expecting = \"x\", deny_unknown_fields, rename_all_fields = \"{rname}\")] enum E {{ V {{ {id}: i32 }}, W }}"), true),
                ]);
            }
            for (site, src, is_field) in sites {
                let expect = catch_unwind(AssertUnwindSafe(|| {
                    if is_field {
                        rule.apply_to_field(plain)
                    } else {
                        rule.apply_to_variant(plain)
                    }
                }));
                let Ok(expect) = expect else {
                    skipped_serde_panics += 1;
                    continue;
                };
                checked += 1;
                let class = ident_class(plain, if is_field { "field" } else { "variant" });
                let problem = match expand(&src) {
                    Outcome::Tokens(t) => {
                        let text = t.to_string();
                        let a = format!("\"{expect}\"");
                        let b = format!("\"\\\"{expect}\\\"\"");
                        if text.contains(&a) || text.contains(&b) {
                            None
                        } else {
                            Some(format!("{src} => expansion does not contain the name {expect:?}"))
                        }
                    }
                    Outcome::Error(e) => Some(format!("{src} => error: {e}")),
                    Outcome::Panic(p) => Some(format!("{src} => panic: {p}")),
                    Outcome::Unparsable(e) => Some(format!("{src} => harness: unparsable {e}")),
                };
                if let Some(p) = problem {
                    let e = fails.entry((rname.to_string(), site.to_string(), class)).or_default();
                    e.0 += 1;
                    if e.1.len() < 2 {
                        e.1.push(p);
                    }
                }
            }
        }
    }
    for ((rule, site, class), (n, ex)) in &fails {
        let exs: Vec<String> = ex.iter().map(|s| js(s)).collect();
        writeln!(
            out,
            "{{\"ev\":\"site-fail\",\"rule\":{},\"site\":{},\"class\":{},\"count\":{},\"examples\":[{}]}}",
            js(rule), js(site), js(class), n, exs.join(",")
        )
        .unwrap();
    }
    writeln!(out, "{{\"ev\":\"sites-summary\",\"idents\":{},\"checked\":{},\"serde_panics\":{}}}", idents.len(), checked, skipped_serde_panics).unwrap();
}
